// Package zzgate replays a recorded order of synchronisation events natively.
package zzgate

import (
	"encoding/json"
	"fmt"
	"os"
	"runtime"
	"strconv"
	"strings"
	"sync"
	"time"
)

type ev struct {
	g    int
	site string
	kind string
}

var (
	mu      sync.Mutex
	cond    = sync.NewCond(&mu)
	trace   []ev
	pos     int
	ids     = map[int64]int{}
	nextID  int
	enabled bool
	busy    bool
	busyAt  time.Time
	Verbose = os.Getenv("ZZGATE_VERBOSE") != ""
)

func init() {
	p := os.Getenv("ZZGATE_TRACE")
	if p == "" {
		return
	}
	b, err := os.ReadFile(p)
	if err != nil {
		panic(err)
	}
	var lines []string
	if err := json.Unmarshal(b, &lines); err != nil {
		panic(err)
	}
	for _, l := range lines {
		f := strings.Fields(l)
		g, _ := strconv.Atoi(f[0])
		trace = append(trace, ev{g, f[1], f[2]})
	}
	enabled = true
	go ticker()
}

func ticker() {
	for {
		time.Sleep(time.Millisecond)
		mu.Lock()
		cond.Broadcast()
		mu.Unlock()
	}
}

func goid() int64 {
	var buf [64]byte
	n := runtime.Stack(buf[:], false)
	f := strings.Fields(string(buf[:n]))
	id, _ := strconv.ParseInt(f[1], 10, 64)
	return id
}

// Register binds the calling goroutine to a logical id.
func Register(id int) {
	mu.Lock()
	ids[goid()] = id
	mu.Unlock()
}

// Spawn allocates the logical id of the goroutine about to be started.
func Spawn() int {
	mu.Lock()
	defer mu.Unlock()
	nextID++
	return nextID
}

var (
	inflight  int
	counted   = map[int]bool{} // logical goroutine -> its admitted operation counts as in flight
	lastG     = -1
	exhausted time.Time
)

// divergeAfter: how long a goroutine may wait at a site the trace does not expect.
const divergeAfter = 20 * time.Second

// At blocks until the recorded order says it is this goroutine's turn at this site.
func At(site string) {
	mu.Lock()
	defer mu.Unlock()
	if !enabled {
		return
	}
	g, ok := ids[goid()]
	if !ok {
		return // unregistered goroutine: not part of the replay
	}
	start := time.Now()
	for enabled && pos < len(trace) {
		e := trace[pos]
		// An operation the engine recorded as blocking ("sendb": a send that waits for its
		// receiver) completes only after later events, so it does not hold the baton; every
		// other admitted operation completes promptly and the next one waits for it.
		free := inflight == 0
		if e.g == g && e.site == site && free {
			if Verbose {
				fmt.Fprintf(os.Stderr, "gate: %d/%d G%d %s %s\n", pos, len(trace), g, site, e.kind)
			}
			pos++
			if e.kind != "sendb" {
				inflight++
				counted[g] = true
			}
			busyAt = time.Now()
			lastG = g
			if pos == len(trace) {
				exhausted = time.Now()
			}
			cond.Broadcast()
			return
		}
		if time.Since(start) > divergeAfter {
			fmt.Fprintf(os.Stderr, "gate: DIVERGED: G%d waits at %s but event %d is G%d %s %s; free-running from here\n", g, site, pos, e.g, e.site, e.kind)
			enabled = false
			cond.Broadcast()
			return
		}
		cond.Wait()
	}
	// trace exhausted: only the goroutine that ran last in the model continues at once
	waitExhausted(g)
}

func waitExhausted(g int) {
	for enabled && g != lastG && time.Since(exhausted) < 300*time.Millisecond {
		cond.Wait()
	}
}

// After marks the operation admitted by At as completed and parks the goroutine until the
// recorded order schedules it again (code between two sync operations runs as one block).
func After() {
	mu.Lock()
	defer mu.Unlock()
	if !enabled {
		return
	}
	g, ok := ids[goid()]
	if !ok {
		return
	}
	if counted[g] {
		counted[g] = false
		if inflight > 0 {
			inflight--
		}
	}
	cond.Broadcast()
	start := time.Now()
	for enabled && pos < len(trace) && trace[pos].g != g {
		if time.Since(start) > divergeAfter {
			fmt.Fprintf(os.Stderr, "gate: DIVERGED: G%d parked after an operation, event %d is G%d %s\n", g, pos, trace[pos].g, trace[pos].site)
			enabled = false
			cond.Broadcast()
			return
		}
		cond.Wait()
	}
	if pos >= len(trace) {
		waitExhausted(g)
	}
}

// Done reports how much of the trace was consumed.
func Done() (int, int) {
	mu.Lock()
	defer mu.Unlock()
	return pos, len(trace)
}
