// Package zzvf is the harness API (native implementation).
//
// The symbolic engine intercepts every function of this package (see
// /verif/engine/interp/intrinsics.go).  This file is what the same harness source links
// against when a witness found by the engine is replayed against the real build with
// `go test -overlay`: symbolic inputs come from the witness, Assert records failures.
package zzvf

import (
	"encoding/json"
	"fmt"
	"math/rand"
	"os"
	"sort"
	"strings"
	"sync"
	"testing"
	"time"

	"github.com/B1NARY-GR0UP/originium/internal/zzgate"
)

// Case is one witness: a model of the symbolic inputs plus the concrete choice values.
type Case struct {
	ID      string            `json:"id"`
	Fn      string            `json:"fn"`
	Fn2     string            `json:"fn2,omitempty"`
	Inputs  map[string]uint64 `json:"inputs"`
	Chooses []int             `json:"chooses"`
	Coins   []int             `json:"coins,omitempty"`
	Expect  string            `json:"expect,omitempty"` // assertion id expected to fail ("" = none, "panic" = panic)
	Obs     map[string]string `json:"obs,omitempty"`    // observables predicted by the engine
	Records map[string]int64  `json:"records,omitempty"`
	Params  map[string]int    `json:"params,omitempty"`
	WalClock [][2]int64       `json:"wal_clock,omitempty"` // (unix second, nanosecond) of each wal.Create, in order
	Dir     string            `json:"dir,omitempty"`   // pre-built database directory (crash image)
	Phase   int               `json:"phase,omitempty"` // >= 1: run the recovery harness Fn2
}

// Result is printed as one "VFRESULT <json>" line per case.
type Result struct {
	ID       string            `json:"id"`
	Failed   []string          `json:"failed"`
	Known    []string          `json:"known"`
	Panic    string            `json:"panic,omitempty"`
	Assume   bool              `json:"assume_violated,omitempty"`
	Obs      map[string]string `json:"obs,omitempty"`
	Covers   []string          `json:"covers,omitempty"`
	Mismatch []string          `json:"mismatch,omitempty"`
	GatePos  int               `json:"gate_pos,omitempty"`   // gated replay: events of the trace consumed
	GateLen  int               `json:"gate_len,omitempty"`
}

type state struct {
	mu      sync.Mutex
	c       *Case
	nChoose int
	nCoin   int
	nWal    int
	res     Result
	known   map[string]bool
	dir     string
	records map[string]int64
}

var st = &state{}

type assumeViolated struct{}

func input(name string) uint64 {
	st.mu.Lock()
	defer st.mu.Unlock()
	if st.c == nil {
		panic("zzvf: no witness loaded (harness functions run only under the engine or a replay)")
	}
	return st.c.Inputs[name]
}

func Byte(name string) byte     { return byte(input(name)) }
func Bool(name string) bool     { return input(name) != 0 }
func Uint64(name string) uint64 { return input(name) }

// Int is a symbolic int constrained to [lo,hi].
func Int(name string, lo, hi int) int { return int(int64(input(name))) }

// Choose is a concrete value per path (the engine forks over [lo,hi]).
func Choose(name string, lo, hi int) int {
	st.mu.Lock()
	defer st.mu.Unlock()
	if st.c == nil {
		panic("zzvf: no witness loaded")
	}
	if st.nChoose >= len(st.c.Chooses) {
		st.nChoose++
		return lo
	}
	v := st.c.Chooses[st.nChoose]
	st.nChoose++
	return v
}

// Param is a per-job constant (bounds such as the number of tables); def when unset.
func Param(name string, def int) int {
	st.mu.Lock()
	defer st.mu.Unlock()
	if st.c != nil {
		if v, ok := st.c.Params[name]; ok {
			return v
		}
	}
	return def
}

func Assume(b bool) {
	if !b {
		panic(assumeViolated{})
	}
}

// Assert states the property; a failure is recorded and the run continues.
func Assert(id string, b bool) {
	if b {
		return
	}
	st.mu.Lock()
	defer st.mu.Unlock()
	kn := false
	for k, on := range st.known {
		if on {
			kn = true
			st.res.Known = append(st.res.Known, k+"|"+id)
		}
	}
	if !kn {
		st.res.Failed = append(st.res.Failed, id)
	}
}

// Known marks the region of a listed known finding (see /verif/known_findings.json):
// an assertion that fails while cond holds is reported as KNOWN-FINDING, not as a violation.
func Known(id string, cond bool) {
	st.mu.Lock()
	defer st.mu.Unlock()
	if st.known == nil {
		st.known = map[string]bool{}
	}
	st.known[id] = cond
}

func Cover(id string) {
	st.mu.Lock()
	defer st.mu.Unlock()
	st.res.Covers = append(st.res.Covers, id)
}

func And(a, b bool) bool        { return a && b }
func Or(a, b bool) bool         { return a || b }
func Not(a bool) bool           { return !a }
func Implies(a, b bool) bool    { return !a || b }
func Ite(c bool, a, b bool) bool {
	if c {
		return a
	}
	return b
}
func IteU64(c bool, a, b uint64) uint64 {
	if c {
		return a
	}
	return b
}
func IteByte(c bool, a, b byte) byte {
	if c {
		return a
	}
	return b
}
func StrEq(a, b string) bool   { return a == b }
func StrLess(a, b string) bool { return a < b }
func BytesEq(a, b []byte) bool { return string(a) == string(b) }

func obs(name, v string) {
	st.mu.Lock()
	defer st.mu.Unlock()
	if st.res.Obs == nil {
		st.res.Obs = map[string]string{}
	}
	st.res.Obs[name] = v
}

// Observables: values the engine predicts under its model and the native run must reproduce.
func ObsBool(name string, b bool)     { obs(name, fmt.Sprintf("%v", b)) }
func ObsU64(name string, v uint64)    { obs(name, fmt.Sprintf("%d", v)) }
func ObsInt(name string, v int)       { obs(name, fmt.Sprintf("%d", uint64(int64(v)))) }
func ObsBytes(name string, v []byte)  { obs(name, fmt.Sprintf("%x", v)) }
func ObsStr(name string, v string)    { obs(name, fmt.Sprintf("%x", v)) }

// Native reports whether the harness runs natively (false inside the engine).
func Native() bool { return true }

// Drain lets all background goroutines run to quiescence inside the engine; natively the
// harness polls for quiescence itself (guarded by Native()).
func Drain() {}

// Yield is a preemption point for the harness goroutine inside the engine.
func Yield() {}

// Dir is the database directory: a model path inside the engine, a fresh temp dir natively
// (one per case; VF_DIR overrides for multi-process crash replays).
func Dir() string {
	st.mu.Lock()
	defer st.mu.Unlock()
	if st.dir != "" {
		return st.dir
	}
	if st.c != nil && st.c.Dir != "" {
		st.dir = st.c.Dir
		return st.dir
	}
	if d := os.Getenv("VF_DIR"); d != "" {
		st.dir = d
		return d
	}
	d, err := os.MkdirTemp("", "zzvf")
	if err != nil {
		panic(err)
	}
	st.dir = d
	return d
}

// Record / Recorded: memory that survives a simulated process crash.
func Record(name string, v int) {
	st.mu.Lock()
	defer st.mu.Unlock()
	if st.records == nil {
		st.records = map[string]int64{}
	}
	st.records[name] = int64(v)
	if p := os.Getenv("VF_RECORDS"); p != "" {
		b, _ := json.Marshal(st.records)
		_ = os.WriteFile(p, b, 0644)
	}
}

func Recorded(name string) int {
	st.mu.Lock()
	defer st.mu.Unlock()
	if st.records == nil {
		st.records = map[string]int64{}
		if p := os.Getenv("VF_RECORDS"); p != "" {
			if b, err := os.ReadFile(p); err == nil {
				_ = json.Unmarshal(b, &st.records)
			}
		}
		if st.c != nil {
			for k, v := range st.c.Records {
				if _, ok := st.records[k]; !ok {
					st.records[k] = v
				}
			}
		}
	}
	v, ok := st.records[name]
	if !ok {
		return -1
	}
	return int(v)
}

// CrashHere is a crash point chosen by the harness itself (engine: fork; native: decided by witness).
func CrashPoint(name string) {}

// WalNow replaces time.Now in an overlay-only copy of wal/wal.go when a witness fixes the
// clock values that name WAL files (two files created in the same second).
func WalNow() time.Time {
	st.mu.Lock()
	defer st.mu.Unlock()
	if st.c != nil && st.nWal < len(st.c.WalClock) {
		v := st.c.WalClock[st.nWal]
		st.nWal++
		return time.Unix(v[0], v[1]).UTC()
	}
	return time.Now()
}

type coinSource struct{}

func (coinSource) Seed(int64) {}

// Int63 feeds rand.Rand.Float64: a "low" coin makes Float64 return 0 (< any p), a "high"
// coin makes it return a value just below 1.
func (coinSource) Int63() int64 {
	st.mu.Lock()
	defer st.mu.Unlock()
	c := 0
	if st.c != nil && st.nCoin < len(st.c.Coins) {
		c = st.c.Coins[st.nCoin]
	}
	st.nCoin++
	if c == 1 {
		return 0
	}
	return (1 << 63) - (1 << 11)
}

// CoinRand returns the random source for skiplist level coins: symbolic coins inside the
// engine, the witness's coin sequence natively.
func CoinRand() *rand.Rand { return rand.New(coinSource{}) }

func runCase(c *Case, fns map[string]func()) (res Result) {
	st.mu.Lock()
	st.c = c
	st.nChoose, st.nCoin, st.nWal = 0, 0, 0
	st.res = Result{ID: c.ID}
	st.known = nil
	st.dir = ""
	st.records = nil
	st.mu.Unlock()
	defer func() {
		r := recover()
		st.mu.Lock()
		res = st.res
		d := st.dir
		st.mu.Unlock()
		res.GatePos, res.GateLen = zzgate.Done()
		if r != nil {
			if _, ok := r.(assumeViolated); ok {
				res.Assume = true
			} else {
				res.Panic = fmt.Sprintf("%v", r)
			}
		}
		if d != "" && c.Dir == "" && os.Getenv("VF_DIR") == "" && os.Getenv("VF_KEEP") == "" {
			_ = os.RemoveAll(d)
		}
		// compare observables predicted by the engine
		if c.Obs != nil && r == nil {
			var names []string
			for k := range c.Obs {
				names = append(names, k)
			}
			sort.Strings(names)
			for _, k := range names {
				if got, ok := res.Obs[k]; !ok || got != c.Obs[k] {
					res.Mismatch = append(res.Mismatch, fmt.Sprintf("%s: engine=%s native=%s", k, c.Obs[k], got))
				}
			}
		}
	}()
	name := c.Fn
	if p := os.Getenv("VF_PHASE"); (p == "2" || c.Phase >= 1) && c.Fn2 != "" {
		name = c.Fn2
	}
	fn := fns[name]
	if fn == nil {
		panic("zzvf: unknown harness " + name)
	}
	zzgate.Register(0) // the harness goroutine is logical goroutine 0 of a gated replay
	fn()
	return
}

// ReplayMain runs every case of the witness file named by VF_WITNESS.
func ReplayMain(t *testing.T, fns map[string]func()) {
	p := os.Getenv("VF_WITNESS")
	if p == "" {
		t.Skip("VF_WITNESS not set")
	}
	b, err := os.ReadFile(p)
	if err != nil {
		t.Fatal(err)
	}
	var cases []Case
	if err := json.Unmarshal(b, &cases); err != nil {
		t.Fatal(err)
	}
	only := os.Getenv("VF_CASE")
	for i := range cases {
		if only != "" && cases[i].ID != only {
			continue
		}
		res := runCase(&cases[i], fns)
		out, _ := json.Marshal(res)
		fmt.Printf("VFRESULT %s\n", strings.ReplaceAll(string(out), "\n", " "))
	}
}
