package originium

import (
	"fmt"

	vf "github.com/B1NARY-GR0UP/originium/internal/zzvf"
	"github.com/B1NARY-GR0UP/originium/pkg/logger"
)

// VH_CONC: W writer goroutines (each commits C transactions; the last transaction of a
// writer is a two-key one) run concurrently with a reader transaction on the harness
// goroutine and with the engine's own flusher/compactor and watermark goroutines; tiny
// thresholds force a rotation on (almost) every commit.  Used by C12 (no data race, no panic,
// results allowed by the snapshot rules) and C15 (every call returns, Close stops the
// flusher, the directory reopens with the complete state).
// Params: WRITERS, COMMITS, MEMTHR, IBMAX, CLOSE_EARLY (1: Close is called while flushes may
// still be pending instead of after a drain).
func VH_CONC() {
	logger.SetLogger(vlog{})
	nw, nc := vf.Param("WRITERS", 1), vf.Param("COMMITS", 2)
	cfg := Config{SkipListMaxLevel: 1, SkipListP: 0.5, MemtableByteThreshold: vf.Param("MEMTHR", 20),
		ImmutableBuffer: vf.Choose("ib", 0, vf.Param("IBMAX", 1)), DataBlockByteThreshold: 1, L0TargetNum: 1, LevelRatio: 1}
	dir := vf.Dir()
	db, err := Open(dir, cfg)
	vf.Assert("CONC.open", err == nil)

	// writer w writes key kw (and, in its last commit, also the shared key "s")
	keys := []string{"a", "b"}
	vals := make([][]byte, nw*nc)
	for i := range vals {
		vals[i] = []byte{vf.Byte(fmt.Sprintf("v%d", i))}
	}
	// pairwise distinct values make it observable which commit a read saw
	for i := range vals {
		for j := 0; j < i; j++ {
			vf.Assume(vals[i][0] != vals[j][0])
		}
	}
	shared := make([][]byte, nw)
	for i := range shared {
		shared[i] = []byte{vf.Byte(fmt.Sprintf("s%d", i))}
	}
	done := make(chan int, nw)
	firstAck := make(chan struct{}, nw*nc)
	errs := make([]error, nw*nc)
	afterAck := vf.Param("AFTERACK", 0) == 1
	waitSecond := afterAck && vf.Param("SECOND", 0) == 1 && nc >= 2
	began := make(chan struct{}, 1)
	for w := 0; w < nw; w++ {
		w := w
		go func() {
			for c := 0; c < nc; c++ {
				i := w*nc + c
				last := c == nc-1
				if waitSecond && w == 0 && c == 1 {
					<-began // writer 0's second commit starts after the reader's snapshot was taken
					if vf.Param("ZONE", 0) == 1 {
						vf.Record("zone", 1) // (jobs with ZoneOnly explore schedules from here on)
					}
				}
				errs[i] = db.Update(func(txn *Txn) error {
					if e := txn.Set(keys[w], vals[i]); e != nil {
						return e
					}
					if last {
						return txn.Set("s", shared[w])
					}
					return nil
				})
				if w == 0 && c < 2 {
					firstAck <- struct{}{} // acknowledgement of writer 0's first and second commit
				}
			}
			done <- w
		}()
	}
	if afterAck {
		<-firstAck // the reader begins after writer 0's first commit was acknowledged
	}

	// the reader: one transaction, reads writer 0's key and the shared key
	var ga, gs []byte
	var oka, oks bool
	rerr := db.View(func(txn *Txn) error {
		if waitSecond {
			began <- struct{}{}
			<-firstAck // the reader began before, and reads after, writer 0's second commit was acknowledged
		}
		ga, oka = txn.Get(keys[0])
		gs, oks = txn.Get("s")
		return nil
	})
	for w := 0; w < nw; w++ {
		<-done
	}
	vf.Assert("C12.view-ok", rerr == nil)
	for i := range errs {
		// blind writes never conflict
		vf.Assert("C12.commit-ok", errs[i] == nil)
	}
	// snapshot rule for the reader: it saw a prefix of writer 0's commits, and never a part of
	// its two-key commit.  a in {absent, vals[0..nc-1]}; s from writer 0 implies a == its last value.
	aIdx := -1 // index of the commit of writer 0 whose value a shows
	okA := !oka
	for c := 0; c < nc; c++ {
		if vf.And(oka, vf.BytesEq(ga, vals[c])) {
			okA = true
			aIdx = c
		}
	}
	vf.Assert("C12.reader.a-is-a-committed-value", okA)
	if afterAck {
		// it began after an acknowledged commit of a: it must see that value or a later one
		vf.Assert("C12.reader.sees-acknowledged", oka)
	}
	if nw == 1 {
		if oks {
			vf.Assert("C12.reader.s-value", vf.BytesEq(gs, shared[0]))
			vf.Assert("C12.reader.no-partial-commit", aIdx == nc-1)
		} else {
			vf.Assert("C12.reader.no-partial-commit", aIdx != nc-1)
		}
	}

	if vf.Param("CLOSE_EARLY", 0) == 0 {
		vDrain(db)
	}
	db.Close()
	// C15: after Close returns the flusher has stopped ...
	stopped := false
	select {
	case <-db.closed:
		stopped = true
	default:
	}
	vf.Assert("C15.flusher-stopped", stopped)
	// ... and the directory reopens at once with the complete committed state
	db2, err := Open(dir, cfg)
	vf.Assert("C15.reopen", err == nil)
	_ = db2.View(func(txn *Txn) error {
		for w := 0; w < nw; w++ {
			g, ok := txn.Get(keys[w])
			vf.Assert("C15.reopened.value", vf.And(ok, vf.BytesEq(g, vals[w*nc+nc-1])))
		}
		g, ok := txn.Get("s")
		sOK := false
		for w := 0; w < nw; w++ {
			sOK = vf.Or(sOK, vf.And(ok, vf.BytesEq(g, shared[w])))
		}
		vf.Assert("C15.reopened.shared", sOK)
		return nil
	})
	db2.Close()
	vf.Cover("CONC.end")
}

// VH_CONC2: two read-modify-write transactions on the same key run on two goroutines while
// the harness goroutine reads; strict serializability of the outcome (C06), exactness of
// the conflict decision (C07) and race freedom of the commit path (C12) under every explored
// schedule.  Params: MEMTHR (small: rotations during the commits), IBMAX.
func VH_CONC2() {
	logger.SetLogger(vlog{})
	cfg := Config{SkipListMaxLevel: 1, SkipListP: 0.5, MemtableByteThreshold: vf.Param("MEMTHR", 1000),
		ImmutableBuffer: vf.Choose("ib", 0, vf.Param("IBMAX", 0)), DataBlockByteThreshold: 1, L0TargetNum: 1, LevelRatio: 1}
	db, err := Open(vf.Dir(), cfg)
	vf.Assert("CONC2.open", err == nil)
	v0 := []byte{vf.Byte("v0")}
	vf.Assert("CONC2.init", db.Update(func(txn *Txn) error { return txn.Set("x", v0) }) == nil)
	vals := [][]byte{{vf.Byte("va")}, {vf.Byte("vb")}}
	// distinct values make the serial order observable
	vf.Assume(vf.And(vf.And(vals[0][0] != vals[1][0], vals[0][0] != v0[0]), vals[1][0] != v0[0]))

	type res struct {
		read []byte
		ok   bool
		err  error
	}
	out := make([]res, 2)
	done := make(chan int, 2)
	for g := 0; g < 2; g++ {
		g := g
		go func() {
			txn := db.Begin(true)
			out[g].read, out[g].ok = txn.Get("x")
			_ = txn.Set("x", vals[g])
			out[g].err = txn.Commit()
			done <- g
		}()
	}
	<-done
	<-done
	var final []byte
	var fok bool
	_ = db.View(func(txn *Txn) error { final, fok = txn.Get("x"); return nil })
	vf.Assert("C06.conc.final-found", fok)

	ca, cb := out[0].err == nil, out[1].err == nil
	for g := 0; g < 2; g++ {
		vf.Assert("C07.conc.error-kind", out[g].err == nil || out[g].err == ErrConflictTxn)
		// every read is a committed value: the initial one or the other transaction's
		vf.Assert("C05.conc.read-committed", vf.And(out[g].ok, vf.Or(vf.BytesEq(out[g].read, v0), vf.BytesEq(out[g].read, vals[1-g]))))
	}
	// the first transaction to validate has nothing to conflict with
	vf.Assert("C07.conc.not-both-refused", ca || cb)
	switch {
	case ca && cb:
		// a serial order must exist: the second one read the first one's write
		aThenB := vf.And(vf.BytesEq(out[0].read, v0), vf.And(vf.BytesEq(out[1].read, vals[0]), vf.BytesEq(final, vals[1])))
		bThenA := vf.And(vf.BytesEq(out[1].read, v0), vf.And(vf.BytesEq(out[0].read, vals[1]), vf.BytesEq(final, vals[0])))
		vf.Assert("C06.conc.serial-order-exists", vf.Or(aThenB, bThenA))
		vf.Cover("CONC2.both-committed")
	case ca:
		vf.Assert("C06.conc.single-winner", vf.And(vf.BytesEq(out[0].read, v0), vf.BytesEq(final, vals[0])))
		vf.Cover("CONC2.conflict")
	case cb:
		vf.Assert("C06.conc.single-winner", vf.And(vf.BytesEq(out[1].read, v0), vf.BytesEq(final, vals[1])))
		vf.Cover("CONC2.conflict")
	}
	vDrain(db)
	db.Close()
	vf.Cover("CONC2.end")
}

// VH_CONC3: two blind writers on different keys whose transactions were begun up front
// (so neither waits for the other's commit in Begin) commit concurrently while every commit
// rotates the memtable; a reader follows.  No panic, no race, both commits succeed and both
// values are visible afterwards (C12); nothing hangs (C15).
func VH_CONC3() {
	logger.SetLogger(vlog{})
	cfg := Config{SkipListMaxLevel: 1, SkipListP: 0.5, MemtableByteThreshold: vf.Param("MEMTHR", 20),
		ImmutableBuffer: vf.Choose("ib", 0, vf.Param("IBMAX", 1)), DataBlockByteThreshold: 1, L0TargetNum: 1, LevelRatio: 1}
	dir := vf.Dir()
	db, err := Open(dir, cfg)
	vf.Assert("CONC3.open", err == nil)
	keys := []string{"a", "b"}
	vals := [][]byte{{vf.Byte("va")}, {vf.Byte("vb")}}
	txns := []*Txn{db.Begin(true), db.Begin(true)}
	errs := make([]error, 2)
	done := make(chan int, 2)
	for g := 0; g < 2; g++ {
		g := g
		go func() {
			_ = txns[g].Set(keys[g], vals[g])
			errs[g] = txns[g].Commit()
			done <- g
		}()
	}
	<-done
	<-done
	vf.Assert("C12.conc3.commit-ok", errs[0] == nil && errs[1] == nil)
	_ = db.View(func(txn *Txn) error {
		for g := 0; g < 2; g++ {
			got, ok := txn.Get(keys[g])
			vf.Assert("C12.conc3.visible", vf.And(ok, vf.BytesEq(got, vals[g])))
		}
		return nil
	})
	vDrain(db)
	db.Close()
	stopped := false
	select {
	case <-db.closed:
		stopped = true
	default:
	}
	vf.Assert("C15.conc3.flusher-stopped", stopped)
	db2, err := Open(dir, cfg)
	vf.Assert("C15.conc3.reopen", err == nil)
	_ = db2.View(func(txn *Txn) error {
		for g := 0; g < 2; g++ {
			got, ok := txn.Get(keys[g])
			vf.Assert("C15.conc3.reopened", vf.And(ok, vf.BytesEq(got, vals[g])))
		}
		return nil
	})
	db2.Close()
	vf.Cover("CONC3.end")
}

// VH_CONC4: a reader whose Begin may fall anywhere inside another goroutine's two-key
// commit reads one key, waits until that commit has returned, then reads the other key and
// the first one again in the same transaction: its snapshot is fixed (repeatable reads) and
// contains the commit completely or not at all (C05).
func VH_CONC4() {
	logger.SetLogger(vlog{})
	cfg := Config{SkipListMaxLevel: 1, SkipListP: 0.5, MemtableByteThreshold: vf.Param("MEMTHR", 1000),
		ImmutableBuffer: 1, DataBlockByteThreshold: 1, L0TargetNum: 1, LevelRatio: 1}
	db, err := Open(vf.Dir(), cfg)
	vf.Assert("CONC4.open", err == nil)
	vx, vy := []byte{vf.Byte("vx")}, []byte{vf.Byte("vy")}
	done := make(chan error, 1)
	started := make(chan struct{})
	go func() {
		e := db.Update(func(txn *Txn) error {
			if e := txn.Set("x", vx); e != nil {
				return e
			}
			e := txn.Set("y", vy)
			close(started) // the committer is on its way into Commit
			return e
		})
		done <- e
	}()
	if vf.Param("WAITSTART", 1) == 1 {
		<-started
	}
	txn := db.Begin(false)
	x1, okx1 := txn.Get("x")
	werr := <-done // the writer's commit has returned
	y, oky := txn.Get("y")
	x2, okx2 := txn.Get("x")
	txn.Discard()
	vf.Assert("CONC4.commit-ok", werr == nil)
	vf.Assert("C05.conc4.repeatable-read", okx1 == okx2 && (!okx1 || vf.BytesEq(x1, x2)))
	vf.Assert("C05.conc4.no-partial-commit", okx1 == oky)
	if okx1 {
		vf.Assert("C05.conc4.values", vf.And(vf.BytesEq(x1, vx), vf.BytesEq(y, vy)))
		vf.Cover("CONC4.saw-commit")
	} else {
		vf.Cover("CONC4.saw-nothing")
	}
	// a transaction begun after the commit returned sees it
	_ = db.View(func(t2 *Txn) error {
		gx, ok := t2.Get("x")
		vf.Assert("C05.conc4.later-reader-sees-commit", vf.And(ok, vf.BytesEq(gx, vx)))
		return nil
	})
	vDrain(db)
	db.Close()
	vf.Cover("CONC4.end")
}
