package originium

import (
	"fmt"

	vf "github.com/B1NARY-GR0UP/originium/internal/zzvf"
	"github.com/B1NARY-GR0UP/originium/pkg/logger"
)

// vworkload runs n transactions through DB.Update; each has 1 (or 2, when OPS2=1)
// Set/Delete operations on keys chosen from keys; values are symbolic bytes (length 0 or
// 1).  After every commit every key is read back and compared with the model.
func vworkload(db *DB, mo *vmodel, keys []string, tag string, n int, drain bool) {
	ops2 := vf.Param("OPS2", 0) == 1
	for i := 0; i < n; i++ {
		nops := 1
		if ops2 {
			nops = vf.Choose("nops", 1, 2)
		}
		type op struct {
			k   string
			del bool
			v   []byte
		}
		var ops []op
		for j := 0; j < nops; j++ {
			o := op{k: keys[vf.Choose("key", 0, len(keys)-1)]}
			switch vf.Choose("kind", 0, vf.Param("KINDS", 2)-1) {
			case 0:
				o.v = []byte{vf.Byte(fmt.Sprintf("%sv%d_%d", tag, i, j))}
			case 1:
				o.del = true
			default:
				o.v = []byte{} // empty value
			}
			ops = append(ops, o)
		}
		err := db.Update(func(txn *Txn) error {
			for _, o := range ops {
				var e error
				if o.del {
					e = txn.Delete(o.k)
				} else {
					e = txn.Set(o.k, o.v)
				}
				vf.Assert(tag+".op-ok", e == nil)
			}
			return nil
		})
		vf.Assert(tag+".commit-ok", err == nil)
		for _, o := range ops { // later operations of one transaction win
			if o.del {
				mo.del(o.k)
			} else {
				mo.set(o.k, o.v)
			}
		}
		if drain {
			vDrain(db)
		}
		if vf.Param("STALL", 0) == 0 { // (a stalled flusher holds the level manager: no reads meanwhile)
			mo.check(db, fmt.Sprintf("%s.after%d", tag, i), keys)
		}
	}
}

// VH_C01: a read returns the latest committed write whatever rotations, flushes and
// compactions ran in between.  Public API only.
// Params: N transactions, KEYS universe size (<= 5), K0 first universe index, DRAIN (1: the
// background work completes between commits, 0: it runs only when the committer blocks),
// OPS2, IBMAX, L0MAX, RATIOMAX.
func VH_C01() {
	logger.SetLogger(vlog{})
	n, nk, k0 := vf.Param("N", 3), vf.Param("KEYS", 2), vf.Param("K0", 0)
	drain := vf.Param("DRAIN", 1) == 1
	keys := vuniverse[k0 : k0+nk]
	db, err := Open(vf.Dir(), vconfig(""))
	vf.Assert("C01.open", err == nil)
	mo := newVModel()
	vworkload(db, mo, keys, "C01", n, drain)
	vDrain(db)
	mo.check(db, "C01.final", keys)
	l0, deeper := vfiles(db)
	vf.ObsInt("C01.l0files", l0)
	vf.ObsInt("C01.deeperfiles", deeper)
	if l0+deeper > 0 {
		vf.Cover("C01.flushed")
	}
	if deeper > 0 {
		vf.Cover("C01.compacted")
	}
	db.Close()
	vf.Cover("C01.end")
}
