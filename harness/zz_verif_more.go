package originium

import (
	"errors"
	"fmt"

	vf "github.com/B1NARY-GR0UP/originium/internal/zzvf"
	"github.com/B1NARY-GR0UP/originium/pkg/logger"
	"github.com/B1NARY-GR0UP/originium/types"
)

// VH_CONC5: after the data reached the sstables, two goroutines read the same keys at the
// same time (plus the harness goroutine): lookups on shared table handles (bloom filter
// hashers, index, file reads) must be free of data races and return the committed values.
func VH_CONC5() {
	logger.SetLogger(vlog{})
	cfg := Config{SkipListMaxLevel: 1, SkipListP: 0.5, MemtableByteThreshold: 20, ImmutableBuffer: 1,
		DataBlockByteThreshold: 1, L0TargetNum: 2, LevelRatio: 2}
	db, err := Open(vf.Dir(), cfg)
	vf.Assert("CONC5.open", err == nil)
	keys := []string{"a", "b", "c"}
	vals := make([][]byte, len(keys))
	for i, k := range keys {
		vals[i] = []byte{vf.Byte("v" + k)}
		k, v := k, vals[i]
		vf.Assert("CONC5.commit", db.Update(func(txn *Txn) error { return txn.Set(k, v) }) == nil)
	}
	vDrain(db) // everything is in sstables now
	done := make(chan int, 2)
	okAll := make([]bool, 2)
	for g := 0; g < 2; g++ {
		g := g
		go func() {
			ok := true
			_ = db.View(func(txn *Txn) error {
				for i := range keys {
					k := keys[(i+g)%len(keys)]
					got, found := txn.Get(k)
					ok = ok && found && string(got) == string(vals[(i+g)%len(keys)])
					_, miss := txn.Get("nokey" + k) // a lookup the filters reject
					ok = ok && !miss
				}
				return nil
			})
			okAll[g] = ok
			done <- g
		}()
	}
	<-done
	<-done
	vf.Assert("C12.conc5.reads", okAll[0] && okAll[1])
	vf.Assert("C16.conc5.members-found", okAll[0] && okAll[1]) // no filter denied a stored key
	db.Close()
	vf.Cover("CONC5.end")
}

// VH_C16_Recover: filters rebuilt from table files at recovery answer "possibly present"
// for the user key of every entry the table holds, deletion markers included (C16), and a
// lookup that a filter rejected does not disturb the next lookup (C10).
// Keys are concrete (the real filter and the real murmur3 run); tombstones, values and
// versions symbolic.
func VH_C16_Recover() {
	logger.SetLogger(vlog{})
	dir := vf.Dir()
	lm := &levelManager{dir: dir, l0TargetNum: 8, ratio: 10, dataBlockSize: vf.Param("BLK", 1), logger: vlog{}}
	T := vf.Param("T", 2)
	users := []string{"apple", "apple@x", "b@d", "c"} // in key order
	type stored struct {
		user string
		e    types.Entry
	}
	var tables [][]stored
	for t := 0; t < T; t++ {
		var kvs []types.Entry
		var st []stored
		for i, u := range users {
			if t > 0 && i%2 != t%2 {
				continue // later tables hold a subset
			}
			ts := vf.Byte(fmt.Sprintf("ts%d_%d", t, i))
			vf.Assume(vf.And(ts >= byte(1+3*t), ts <= byte(3+3*t))) // newer tables hold newer versions
			e := types.Entry{Key: u + "@" + vts(ts), Value: []byte{vf.Byte(fmt.Sprintf("v%d_%d", t, i))}, Tombstone: vf.Bool(fmt.Sprintf("del%d_%d", t, i)), Version: int64(ts)}
			kvs = append(kvs, e)
			st = append(st, stored{u, e})
		}
		vf.Assert("C16.recover.flush", lm.flushToL0(kvs) == nil)
		tables = append(tables, st)
	}
	lm2 := &levelManager{dir: dir, l0TargetNum: 8, ratio: 10, dataBlockSize: 16, logger: vlog{}}
	lm2.recover()
	vf.Assert("C16.recover.tables", len(lm2.levels) == 1 && lm2.levels[0].Len() == T)
	// every recovered filter contains every key of its table
	ti := 0
	for e := lm2.levels[0].Front(); e != nil; e = e.Next() {
		th := e.Value.(tableHandle)
		for _, s := range tables[ti] {
			vf.Assert("C16.recover.member", th.filter.Contains(s.user))
		}
		ti++
	}
	// lookups through the recovered handles: a rejected lookup first, then a stored key
	for _, u := range users {
		_, miss := lm2.searchLowerBound("zz-" + u + "@9")
		vf.Assert("C10.recover.absent", !miss)
		var want types.Entry
		found := false
		for _, st := range tables {
			for _, s := range st {
				if s.user == u {
					want, found = s.e, true // later tables hold newer versions
				}
			}
		}
		got, ok := lm2.searchLowerBound(u + "@99")
		vf.Assert("C10.recover.found", ok == found)
		if vf.And(ok, found) {
			vf.Assert("C10.recover.version", got.Version == want.Version)
			vf.Assert("C10.recover.tombstone", got.Tombstone == want.Tombstone)
			vf.Assert("C10.recover.value", vf.BytesEq(got.Value, want.Value))
		}
	}
	vf.Cover("C16.recover.end")
}

// VH_C08_CloseBacklog: Close while the flusher still has memtables queued (flusher stalled
// during the workload): afterwards the handle is closed for View/Update, the flusher has
// stopped, and a reopen shows every commit.
func VH_C08_CloseBacklog() {
	logger.SetLogger(vlog{})
	cfg := Config{SkipListMaxLevel: 1, SkipListP: 0.5, MemtableByteThreshold: 20, ImmutableBuffer: 4,
		DataBlockByteThreshold: 1, L0TargetNum: 2, LevelRatio: 2}
	dir := vf.Dir()
	db, err := Open(dir, cfg)
	vf.Assert("C08.backlog.open", err == nil)
	db.manager.mu.Lock() // the flusher cannot make progress: rotations queue up
	n := vf.Param("N", 3)
	vals := make([][]byte, n)
	for i := 0; i < n; i++ {
		vals[i] = []byte{vf.Byte(fmt.Sprintf("v%d", i))}
		v := vals[i]
		vf.Assert("C08.backlog.commit", db.Update(func(txn *Txn) error { return txn.Set("k", v) }) == nil)
	}
	db.manager.mu.Unlock()
	db.Close()
	vf.Assert("C08.closed-view-after-backlog", errors.Is(db.View(func(*Txn) error { return nil }), ErrDBClosed))
	vf.Assert("C08.closed-update-after-backlog", errors.Is(db.Update(func(*Txn) error { return nil }), ErrDBClosed))
	stopped := false
	select {
	case <-db.closed:
		stopped = true
	default:
	}
	vf.Assert("C15.backlog.flusher-stopped", stopped)
	db2, err := Open(dir, cfg)
	vf.Assert("C08.backlog.reopen", err == nil)
	_ = db2.View(func(txn *Txn) error {
		got, ok := txn.Get("k")
		vf.Assert("C08.backlog.reopened", vf.And(ok, vf.BytesEq(got, vals[n-1])))
		return nil
	})
	db2.Close()
	vf.Cover("C08.backlog.end")
}
