package originium

import (
	"errors"
	"fmt"

	vf "github.com/B1NARY-GR0UP/originium/internal/zzvf"
	"github.com/B1NARY-GR0UP/originium/pkg/logger"
)

// Shared transaction harness for C05 (snapshot reads), C06 (strict serializability),
// C07 (conflict exactly when a read key was overwritten) and C08 (abandoned transactions
// leave no trace; misuse errors).  A program is a choice of NT scripts from a library plus an
// interleaving of their API calls (every interleaving is a path class); written values are
// symbolic bytes; the memtable threshold is symbolic so rotations, flushes and compactions
// (with their version garbage collection) fall between arbitrary steps.

const (
	opGet = iota
	opSet
	opDel
	opCommit
	opDiscard
	opSetExpectRO    // misuse: write in a read-only transaction
	opEmptyKey       // misuse: empty key
	opSetAfterFinish // misuse: use after Commit/Discard
	opCommitAfterFinish
	opGetAfterFinish
)

type sop struct {
	kind int
	key  int // index into the key universe
}

type tscript struct {
	update bool
	ops    []sop
}

// the script library (x = key 0, y = key 1)
var tlibrary = []tscript{
	{true, []sop{{opGet, 0}, {opSet, 1}, {opCommit, 0}}},                      // 0: write-skew half A
	{true, []sop{{opGet, 1}, {opSet, 0}, {opCommit, 0}}},                      // 1: write-skew half B
	{false, []sop{{opGet, 0}, {opGet, 1}, {opGet, 0}, {opDiscard, 0}}},        // 2: long reader
	{true, []sop{{opSet, 0}, {opSet, 1}, {opCommit, 0}}},                      // 3: multi-key blind writer
	{true, []sop{{opGet, 0}, {opSet, 0}, {opCommit, 0}}},                      // 4: read-modify-write (lost update)
	{true, []sop{{opSet, 0}, {opGet, 0}, {opDiscard, 0}}},                     // 5: abandoned writer, reads own write
	{true, []sop{{opGet, 0}, {opDel, 0}, {opGet, 0}, {opCommit, 0}}},          // 6: delete after read, read after own delete
	{false, []sop{{opSetExpectRO, 0}, {opGet, 1}, {opCommit, 0}}},             // 7: read-only: write refused, Commit is a no-op
	{true, []sop{{opEmptyKey, 0}, {opSet, 1}, {opDiscard, 0}, {opSetAfterFinish, 1}, {opCommitAfterFinish, 0}, {opGetAfterFinish, 1}}}, // 8: misuse
	{true, []sop{{opGet, 1}, {opCommit, 0}}},                                  // 9: read-write transaction that writes nothing
	{true, []sop{{opDel, 1}, {opCommit, 0}}},                                  // 10: blind delete
	{true, []sop{{opSet, 1}, {opCommit, 0}, {opSetAfterFinish, 0}, {opCommitAfterFinish, 0}, {opGetAfterFinish, 1}}}, // 11: use after a successful commit
}

type tcommit struct {
	val map[string][]byte
	del map[string]bool
}

type tread struct {
	key   string
	found bool
	val   []byte
}

type ttxn struct {
	sc      tscript
	pc      int
	txn     *Txn
	snap    int // number of commits visible (taken at Begin)
	wval    map[string][]byte
	wdel    map[string]bool
	wrote   map[string]bool
	reads   []tread // reads served by the store (not by the own buffer)
	done    bool
	id      int
}

type tworld struct {
	db      *DB
	keys    []string
	commits []tcommit
	nval    int
	misused bool
}

// state after the first n commits
func (w *tworld) lookup(n int, k string) (bool, []byte) {
	found, val := false, []byte(nil)
	for i := 0; i < n; i++ {
		c := w.commits[i]
		if c.del[k] {
			found, val = false, nil
		} else if v, ok := c.val[k]; ok {
			found, val = true, v
		}
	}
	return found, val
}

func (w *tworld) step(t *ttxn) {
	if t.txn == nil {
		t.txn = w.db.Begin(t.sc.update)
		t.snap = len(w.commits)
		t.wval, t.wdel, t.wrote = map[string][]byte{}, map[string]bool{}, map[string]bool{}
		return
	}
	o := t.sc.ops[t.pc]
	t.pc++
	k := w.keys[o.key]
	tag := fmt.Sprintf("t%d.op%d", t.id, t.pc-1)
	switch o.kind {
	case opGet:
		got, ok := t.txn.Get(k)
		var wantOk bool
		var want []byte
		if t.wrote[k] { // own earlier writes win
			wantOk, want = !t.wdel[k], t.wval[k]
		} else {
			wantOk, want = w.lookup(t.snap, k)
			t.reads = append(t.reads, tread{k, ok, got})
		}
		vf.ObsBool(tag+".found", ok)
		vf.Assert("C05.snapshot.found", ok == wantOk)
		if vf.And(ok, wantOk) {
			vf.Assert("C05.snapshot.value", vf.BytesEq(got, want))
		}
	case opSet:
		w.nval++
		v := []byte{vf.Byte(fmt.Sprintf("val%d", w.nval))}
		vf.Assert("C08.set-ok", t.txn.Set(k, v) == nil)
		t.wrote[k], t.wdel[k], t.wval[k] = true, false, v
	case opDel:
		vf.Assert("C08.delete-ok", t.txn.Delete(k) == nil)
		t.wrote[k], t.wdel[k], t.wval[k] = true, true, nil
	case opCommit:
		err := t.txn.Commit()
		t.done = true
		// C07: refused exactly when a key read from the store was written by a transaction
		// that committed after this one's snapshot
		expect := false
		if t.sc.update && len(t.wrote) > 0 {
			for _, r := range t.reads {
				for i := t.snap; i < len(w.commits); i++ {
					if _, ok := w.commits[i].val[r.key]; ok || w.commits[i].del[r.key] {
						expect = true
					}
				}
			}
		}
		vf.ObsBool(tag+".conflict", errors.Is(err, ErrConflictTxn))
		vf.Assert("C07.conflict-iff", errors.Is(err, ErrConflictTxn) == expect)
		if w.misused {
			// C08: refused calls earlier in the program changed nothing for anybody
			vf.Assert("C08.misuse-has-no-effect.commit", errors.Is(err, ErrConflictTxn) == expect)
		}
		if !expect {
			vf.Assert("C07.commit-ok", err == nil)
		}
		if err == nil && t.sc.update && len(t.wrote) > 0 {
			// C06: with the commit order as serial order, every store read of this transaction
			// must be what the state just before its commit holds
			for _, r := range t.reads {
				f, v := w.lookup(len(w.commits), r.key)
				vf.Assert("C06.read-valid-at-commit.found", r.found == f)
				if vf.And(r.found, f) {
					vf.Assert("C06.read-valid-at-commit.value", vf.BytesEq(r.val, v))
				}
			}
			c := tcommit{val: map[string][]byte{}, del: map[string]bool{}}
			for k := range t.wrote {
				if t.wdel[k] {
					c.del[k] = true
				} else {
					c.val[k] = t.wval[k]
				}
			}
			w.commits = append(w.commits, c)
			vf.Cover("TXN.committed")
		}
		if errors.Is(err, ErrConflictTxn) {
			vf.Cover("TXN.conflict")
		}
		if vf.Param("DRAIN", 1) == 1 {
			vDrain(w.db)
		}
	case opDiscard:
		t.txn.Discard()
		t.done = true
	case opSetExpectRO:
		w.misused = true
		vf.Assert("C08.readonly-set", errors.Is(t.txn.Set(k, []byte{1}), ErrReadOnlyTxn))
		vf.Assert("C08.readonly-delete", errors.Is(t.txn.Delete(k), ErrReadOnlyTxn))
	case opEmptyKey:
		w.misused = true
		vf.Assert("C08.emptykey-set", errors.Is(t.txn.Set("", []byte{1}), ErrEmptyKey))
		vf.Assert("C08.emptykey-delete", errors.Is(t.txn.Delete(""), ErrEmptyKey))
		_, ok := t.txn.Get("")
		vf.Assert("C08.emptykey-get", !ok)
	case opSetAfterFinish:
		w.misused = true
		vf.Assert("C08.finished-set", errors.Is(t.txn.Set(k, []byte{1}), ErrDiscardedTxn))
		vf.Assert("C08.finished-delete", errors.Is(t.txn.Delete(k), ErrDiscardedTxn))
	case opCommitAfterFinish:
		vf.Assert("C08.finished-commit", errors.Is(t.txn.Commit(), ErrDiscardedTxn))
	case opGetAfterFinish:
		_, ok := t.txn.Get(k)
		vf.Assert("C08.finished-get", !ok)
	}
}

func (w *tworld) checkAll(tag string, db *DB) {
	err := db.View(func(txn *Txn) error {
		for _, k := range w.keys {
			got, ok := txn.Get(k)
			f, v := w.lookup(len(w.commits), k)
			vf.ObsBool(tag+"."+k+".found", ok)
			vf.Assert(tag+".found", ok == f)
			if vf.And(ok, f) {
				vf.Assert(tag+".value", vf.BytesEq(got, v))
			}
		}
		return nil
	})
	vf.Assert(tag+".view-ok", err == nil)
}

// VH_TXN.  Params: NT transactions (2 or 3), LIB (number of library scripts to choose from,
// starting at LIB0), KEYS/K0 (universe), DRAIN, UPDATEERR (1: an Update whose closure fails is
// interleaved), REOPEN (1: close, reopen and read again at the end).
func VH_TXN() {
	logger.SetLogger(vlog{})
	nt := vf.Param("NT", 2)
	lib0, libn := vf.Param("LIB0", 0), vf.Param("LIB", 7)
	k0 := vf.Param("K0", 0)
	keys := vuniverse[k0 : k0+2]
	dir := vf.Dir()
	cfg := vconfig("")
	db, err := Open(dir, cfg)
	vf.Assert("TXN.open", err == nil)
	w := &tworld{db: db, keys: keys}

	// an initial committed state so that reads have something to see
	if vf.Param("INIT", 1) == 1 {
		v0 := []byte{vf.Byte("init")}
		vf.Assert("TXN.init", db.Update(func(txn *Txn) error { return txn.Set(keys[0], v0) }) == nil)
		w.commits = append(w.commits, tcommit{val: map[string][]byte{keys[0]: v0}, del: map[string]bool{}})
	}

	ts := make([]*ttxn, nt)
	total := 0
	for i := range ts {
		var sc tscript
		if si := vf.Param(fmt.Sprintf("S%d", i), -1); si >= 0 {
			sc = tlibrary[si]
		} else if fix := vf.Param("LIBFIX", 0); fix > 0 {
			// fixed scripts: decimal digits of LIBFIX (e.g. 23: long reader + multi-key writer)
			d := fix
			for k := 0; k < nt-1-i; k++ {
				d /= 10
			}
			sc = tlibrary[d%10]
		} else {
			sc = tlibrary[lib0+vf.Choose("script", 0, libn-1)]
		}
		ts[i] = &ttxn{sc: sc, id: i}
		total += 1 + len(sc.ops)
	}
	updErrAt := -1
	if vf.Param("UPDATEERR", 0) == 1 {
		updErrAt = vf.Choose("updateErrAt", 0, total)
	}
	extraAt, extraAt2 := -1, -1
	if vf.Param("EXTRA", 0) >= 1 {
		extraAt = vf.Choose("extraCommitAt", 0, total)
	}
	if vf.Param("EXTRA", 0) >= 2 {
		extraAt2 = vf.Choose("extraCommitAt2", extraAt, total)
	}
	errClosure := errors.New("closure failed")
	for s := 0; s <= total; s++ {
		for rep := 0; rep < 2; rep++ {
			if (rep == 0 && s == extraAt) || (rep == 1 && s == extraAt2) {
				// an unrelated transaction commits here (its key is outside the scripts' keys)
				xv := []byte{vf.Byte(fmt.Sprintf("extra%d", rep))}
				vf.Assert("TXN.extra-commit", db.Update(func(txn *Txn) error { return txn.Set("zz", xv) }) == nil)
				w.commits = append(w.commits, tcommit{val: map[string][]byte{"zz": xv}, del: map[string]bool{}})
			}
		}
		if s == updErrAt {
			// C08: an Update whose closure returns an error applies nothing
			err := db.Update(func(txn *Txn) error {
				_ = txn.Set(keys[0], []byte{0xAB})
				_ = txn.Delete(keys[1])
				return errClosure
			})
			vf.Assert("C08.update-closure-error", err == errClosure)
		}
		if s == total {
			break
		}
		// choose which unfinished transaction advances
		var live []int
		for i, t := range ts {
			if t.txn == nil || t.pc < len(t.sc.ops) {
				live = append(live, i)
			}
		}
		pick := live[0]
		if len(live) > 1 {
			pick = live[vf.Choose("advance", 0, len(live)-1)]
		}
		w.step(ts[pick])
	}
	for _, t := range ts { // finish whatever a script left open
		if !t.done {
			t.txn.Discard()
		}
	}
	vDrain(db)
	w.checkAll("C08.final", db)
	l0, deeper := vfiles(db)
	if l0+deeper > 0 {
		vf.Cover("TXN.flushed")
	}
	if deeper > 0 {
		vf.Cover("TXN.compacted")
	}
	db.Close()
	// C08: calls through View/Update after Close
	vf.Assert("C08.closed-view", errors.Is(db.View(func(*Txn) error { return nil }), ErrDBClosed))
	vf.Assert("C08.closed-update", errors.Is(db.Update(func(*Txn) error { return nil }), ErrDBClosed))
	if vf.Param("REOPEN", 1) == 1 {
		db2, err := Open(dir, cfg)
		vf.Assert("TXN.reopen", err == nil)
		w.checkAll("C08.reopened", db2)
		db2.Close()
	}
	vf.Cover("TXN.end")
}
