package originium

import (
	"fmt"

	vf "github.com/B1NARY-GR0UP/originium/internal/zzvf"
	"github.com/B1NARY-GR0UP/originium/pkg/logger"
)

// Crash harnesses (C03, C04, C14).  Keys and values are concrete so that every file byte
// is concrete and produced by the real encoders; what is symbolic is the crash point (a
// choice before every mutating file operation of every goroutine), the torn-tail lengths
// (C14), and the schedule.

type cop struct {
	k   string
	del bool
	v   byte
	n   int // value length (0 = 1); every byte is v
}

func (o cop) value() []byte {
	n := o.n
	if n == 0 {
		n = 1
	}
	b := make([]byte, n)
	for i := range b {
		b[i] = o.v
	}
	return b
}

// cworkload returns the transactions of workload W.  Values are unique per transaction.
func cworkload(w int) [][]cop {
	switch w {
	case 1: // multi-key transaction last (its commit is the in-flight one for late crash points)
		return [][]cop{
			{{k: "a", v: 1}},
			{{k: "b", v: 2}},
			{{k: "c", v: 3}},
			{{k: "a", v: 4}, {k: "b", v: 5}, {k: "c", v: 6}},
		}
	case 6: // a multi-key transaction with one value just below 64 KiB (its wal record is larger)
		return [][]cop{
			{{k: "a", v: 1}},
			{{k: "a", v: 2}, {k: "b", v: 3, n: 65535}, {k: "c", v: 4}},
			{{k: "c", v: 5}},
		}
	case 5: // as 4, but the active memtable holds a two-key transaction of which only one key
		// has an older version in the queued memtable
		return [][]cop{
			{{k: "a", v: 1}},
			{{k: "b", v: 2, n: 10}}, // 21 + 30 bytes: rotates at MEMTHR 50
			{{k: "a", v: 3}, {k: "c", v: 4}}, // 42 bytes: stays in the active memtable
		}
	case 4: // short: one rotation, then a newer version of its key in the active memtable
		return [][]cop{
			{{k: "a", v: 1}},
			{{k: "b", v: 2}},
			{{k: "a", v: 3}},
		}
	case 3: // a multi-key transaction that arrives when the memtable is nearly full (MEMTHR 44:
		// two entries = 42 bytes), so its writes straddle the rotation; then more commits
		return [][]cop{
			{{k: "a", v: 1}},
			{{k: "b", v: 2}},
			{{k: "a", v: 3}, {k: "b", v: 4}, {k: "c", v: 5}},
			{{k: "c", v: 6}},
			{{k: "a", v: 7}, {k: "c", v: 8}},
		}
	case 2: // deletes and overwrites that end up in different levels
		return [][]cop{
			{{k: "a", v: 1}},
			{{k: "a@", v: 2}},
			{{k: "a", del: true}},
			{{k: "b", v: 4}},
			{{k: "a@", v: 5}},
			{{k: "a", v: 6}},
			{{k: "b", del: true}},
		}
	}
	return [][]cop{
		{{k: "a", v: 1}},
		{{k: "b", v: 2}},
		{{k: "a", v: 3}, {k: "b", v: 4}},
		{{k: "a", del: true}},
		{{k: "b", v: 5}},
		{{k: "a", v: 6}},
	}
}

func ckeys(w int) []string {
	switch w {
	case 1, 3, 5, 6:
		return []string{"a", "b", "c"}
	case 2:
		return []string{"a", "a@", "b"}
	}
	return []string{"a", "b"}
}

func cconfig() Config {
	return Config{SkipListMaxLevel: 1, SkipListP: 0.5, MemtableByteThreshold: vf.Param("MEMTHR", 40), ImmutableBuffer: vf.Param("IB", 1),
		DataBlockByteThreshold: vf.Param("BLKTHR", 1), L0TargetNum: vf.Param("L0T", 1), LevelRatio: vf.Param("RATIO", 1)}
}

const cpostValue = 0xEE // value of the commit made after recovery (key = first key of the workload)

// VH_C03_P1: the workload.  Progress is recorded outside the crashed process.
func VH_C03_P1() {
	logger.SetLogger(vlog{})
	w := vf.Param("W", 0)
	txns := cworkload(w)
	db, err := Open(vf.Dir(), cconfig())
	vf.Assert("C03.p1.open", err == nil)
	drain := vf.Param("DRAIN", 1) == 1
	stall := vf.Param("STALL", 0) == 1
	if vf.Param("ZONE", 0) == 2 {
		vf.Record("zone", 1) // the whole workload is the zone (recovery phases run under the default schedule)
	}
	if stall {
		// a flusher that is slower than the writers: it cannot enter the level manager until
		// the workload is over, so Close finds flushes pending
		db.manager.mu.Lock()
	}
	for i, t := range txns {
		vf.Record("inflight", i)
		err := db.Update(func(txn *Txn) error {
			for _, o := range t {
				if o.del {
					_ = txn.Delete(o.k)
				} else {
					_ = txn.Set(o.k, o.value())
				}
			}
			return nil
		})
		vf.Assert("C03.p1.commit", err == nil)
		vf.Record("acked", i)
		if drain {
			vDrain(db)
		}
	}
	if vf.Param("ZONE", 0) == 1 {
		vf.Record("zone", 1) // (jobs with ZoneOnly explore schedules and crash points from here on)
	}
	if stall {
		db.manager.mu.Unlock()
	}
	if vf.Param("FINALDRAIN", 1) == 1 {
		vDrain(db)
	}
	l0, deeper := vfiles(db)
	if l0+deeper > 0 {
		vf.Cover("C03.p1.flushed")
	}
	if deeper > 0 {
		vf.Cover("C03.p1.compacted")
	}
	db.Close()
	vf.Record("closed", 1)
	vf.Cover("C03.p1.end")
}

// cstate applies transactions 0..upto to an empty state.
// cmatch: the read value is the one written by o (length and content).
func cmatch(g []byte, v byte, n int) bool {
	if n == 0 {
		n = 1
	}
	return len(g) == n && g[0] == v && g[len(g)-1] == v
}

func cstate(txns [][]cop, upto int) (map[string]byte, map[string]bool) {
	val, live, _ := cstateN(txns, upto)
	return val, live
}

// cstateN also returns the length of each live value.
func cstateN(txns [][]cop, upto int) (map[string]byte, map[string]bool, map[string]int) {
	val, live, ln := map[string]byte{}, map[string]bool{}, map[string]int{}
	for i := 0; i <= upto && i < len(txns); i++ {
		for _, o := range txns[i] {
			if o.del {
				live[o.k] = false
			} else {
				live[o.k], val[o.k], ln[o.k] = true, o.v, o.n
			}
		}
	}
	return val, live, ln
}

// VH_C03_P2: recovery in a fresh process on whatever the crash left.
func VH_C03_P2() {
	logger.SetLogger(vlog{})
	w := vf.Param("W", 0)
	txns, keys := cworkload(w), ckeys(w)
	acked, inflight := vf.Recorded("acked"), vf.Recorded("inflight")
	postAcked, postInflight := vf.Recorded("post.acked") == 1, vf.Recorded("post.inflight") == 1
	vf.ObsInt("C03.acked", acked)

	db, err := Open(vf.Dir(), cconfig()) // a panic here is reported by the engine / the test
	vf.Assert("C03.recover.open", err == nil)

	val, live, vlen := cstateN(txns, acked)
	var fval map[string]byte
	var flive map[string]bool
	var flen map[string]int
	var fkeys []string
	if inflight > acked && inflight < len(txns) {
		fval, flive, flen = cstateN(txns, inflight)
		for _, o := range txns[inflight] {
			fkeys = append(fkeys, o.k)
		}
	}
	newCount, oldCount := 0, 0
	got := map[string][]byte{}
	found := map[string]bool{}
	err = db.View(func(txn *Txn) error {
		for _, k := range keys {
			g, ok := txn.Get(k)
			got[k], found[k] = g, ok
			vf.ObsBool("C03.recovered."+k+".found", ok)
			if ok && len(g) == 1 {
				vf.ObsInt("C03.recovered."+k+".value", int(g[0]))
			}
			isOld := (ok == live[k]) && (!ok || cmatch(g, val[k], vlen[k]))
			isNew := false
			inFlightKey := false
			for _, fk := range fkeys {
				if fk == k {
					inFlightKey = true
				}
			}
			if inFlightKey {
				isNew = (ok == flive[k]) && (!ok || cmatch(g, fval[k], flen[k]))
			}
			// a commit made by an earlier recovery phase (crash during recovery) may be visible
			isPost := k == keys[0] && (postAcked || postInflight) && ok && len(g) == 1 && g[0] == cpostValue
			if postAcked && k == keys[0] {
				vf.Assert("C03.recovered.post-commit."+k, isPost)
				continue
			}
			vf.Assert("C03.recovered."+k, isOld || isNew || isPost)
			if inFlightKey && !isPost {
				if isNew && !isOld {
					newCount++
				} else if isOld && !isNew {
					oldCount++
				}
			}
		}
		return nil
	})
	vf.Assert("C03.recovered.view", err == nil)
	// C04: the in-flight transaction is visible completely or not at all
	vf.Assert("C04.atomic", newCount == 0 || oldCount == 0)
	// C04 for the acknowledged transactions: none of them may be visible in part.  (Checked
	// when nothing is in flight, so every key has exactly one allowed value.)
	if len(fkeys) == 0 && !postAcked && !postInflight {
		for i := 0; i <= acked && i < len(txns); i++ {
			if len(txns[i]) < 2 {
				continue
			}
			// keys of transaction i that no later acknowledged transaction overwrote
			seen, missing := 0, 0
			for _, o := range txns[i] {
				later := false
				for j := i + 1; j <= acked && j < len(txns); j++ {
					for _, o2 := range txns[j] {
						if o2.k == o.k {
							later = true
						}
					}
				}
				if later {
					continue
				}
				has := (found[o.k] == !o.del) && (o.del || cmatch(got[o.k], o.v, o.n))
				if has {
					seen++
				} else {
					missing++
				}
			}
			vf.Assert("C04.acked-atomic", seen == 0 || missing == 0)
		}
	}
	if newCount > 0 {
		vf.Cover("C03.inflight-visible")
	}

	// the recovered store accepts and retains further commits
	vf.Record("post.inflight", 1)
	err = db.Update(func(txn *Txn) error { return txn.Set(keys[0], []byte{cpostValue}) })
	vf.Assert("C03.post.commit", err == nil)
	vf.Record("post.acked", 1)
	// ... and keeps working: further commits drive rotations, flushes and a compaction of the
	// recovered tables (under the recovered watermark) before the next restart
	postN := vf.Param("POSTN", 3)
	for i := 0; i < postN; i++ {
		v := byte(0xD0 + i)
		vf.Assert("C03.post.more-commits", db.Update(func(txn *Txn) error { return txn.Set("p", []byte{v}) }) == nil)
		vDrain(db)
	}
	check := func(tag string, d *DB) {
		_ = d.View(func(txn *Txn) error {
			for _, k := range keys {
				g, ok := txn.Get(k)
				if k == keys[0] {
					vf.Assert(tag+"."+k, ok && len(g) == 1 && g[0] == cpostValue)
					if postN > 0 {
						pg, pok := txn.Get("p")
						vf.Assert(tag+".p", pok && len(pg) == 1 && pg[0] == byte(0xD0+postN-1))
					}
				} else {
					vf.Assert(tag+"."+k, ok == found[k] && (!ok || string(g) == string(got[k])))
				}
			}
			return nil
		})
	}
	check("C03.post.read", db)
	vDrain(db)
	db.Close()
	db2, err := Open(vf.Dir(), cconfig())
	vf.Assert("C03.post.reopen", err == nil)
	check("C03.post.reopened", db2)
	db2.Close()
	vf.Cover(fmt.Sprintf("C03.p2.end"))
}
