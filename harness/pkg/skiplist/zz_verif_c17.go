package skiplist

import (
	"fmt"

	vf "github.com/B1NARY-GR0UP/originium/internal/zzvf"
	"github.com/B1NARY-GR0UP/originium/types"
)

// reference model: one slot per operation, all fields symbolic (no forking in the spec)
type c17slot struct {
	k, ts, v byte
	tomb     bool
	present  bool
}

func c17key(k, ts byte) string { return string([]byte{k}) + "@" + string([]byte{'0' + ts}) }

// (k1,t1) sorts strictly before (k2,t2): key ascending, version descending
func c17before(k1, t1, k2, t2 byte) bool { return vf.Or(k1 < k2, vf.And(k1 == k2, t1 > t2)) }

// c17match: a returned entry equals slot s exactly
func c17match(e types.Entry, s c17slot) bool {
	r := vf.And(s.present, vf.StrEq(e.Key, c17key(s.k, s.ts)))
	r = vf.And(r, vf.And(len(e.Value) == 1, vf.BytesEq(e.Value, []byte{s.v})))
	r = vf.And(r, e.Tombstone == s.tomb)
	return vf.And(r, e.Version == int64(s.ts))
}

func c17inRef(e types.Entry, ref []c17slot) bool {
	r := false
	for _, s := range ref {
		r = vf.Or(r, c17match(e, s))
	}
	return r
}

// components of a returned key "k@t" (format asserted)
func c17parts(tag string, e types.Entry) (byte, byte) {
	vf.Assert(tag+".keyformat", vf.And(len(e.Key) == 3, e.Key[1] == '@'))
	return e.Key[0], e.Key[2] - '0'
}

// VH_C17: N symbolic Set/Delete operations on a real SkipList (maxLevel ML, symbolic level
// coins), then Get, LowerBound, Scan and All are compared with a sorted-map reference.
func VH_C17() {
	N := vf.Param("N", 3)
	ml := vf.Param("ML", 2)
	s := New(ml, 0.5)
	s.rand = vf.CoinRand()
	ref := make([]c17slot, 0, N)
	for i := 0; i < N; i++ {
		k, ts := vf.Byte(fmt.Sprintf("op%d.k", i)), vf.Byte(fmt.Sprintf("op%d.ts", i))
		vf.Assume(ts <= 9)
		isSet := true
		if seq := vf.Param("OPSEQ", 0); seq > 0 {
			// fixed operation kinds: decimal digits of OPSEQ, 1 = Set, 2 = Delete
			d := seq
			for k := 0; k < N-1-i; k++ {
				d /= 10
			}
			isSet = d%10 == 1
		} else {
			isSet = vf.Choose("op", 0, vf.Param("DEL", 1)) == 0
		}
		if isSet {
			v, tomb := vf.Byte(fmt.Sprintf("op%d.v", i)), vf.Bool(fmt.Sprintf("op%d.del", i))
			s.Set(types.Entry{Key: c17key(k, ts), Value: []byte{v}, Tombstone: tomb, Version: int64(ts)})
			any := false
			for j := range ref {
				m := vf.And(ref[j].present, vf.And(ref[j].k == k, ref[j].ts == ts))
				ref[j].v = vf.IteByte(m, v, ref[j].v) // replace semantics
				ref[j].tomb = vf.Ite(m, tomb, ref[j].tomb)
				any = vf.Or(any, m)
			}
			ref = append(ref, c17slot{k, ts, v, tomb, vf.Not(any)})
		} else {
			removed := s.Delete(c17key(k, ts))
			any := false
			for j := range ref {
				m := vf.And(ref[j].present, vf.And(ref[j].k == k, ref[j].ts == ts))
				ref[j].present = vf.And(ref[j].present, vf.Not(m))
				any = vf.Or(any, m)
			}
			vf.Assert("C17.delete.result", removed == any)
		}
	}
	count := 0
	for _, r := range ref {
		count += int(vf.IteU64(r.present, 1, 0))
	}

	// All: exactly the present slots, strictly sorted
	all := s.All()
	vf.ObsInt("C17.all.len", len(all))
	vf.Assert("C17.all.count", len(all) == count)
	for i, e := range all {
		vf.Assert("C17.all.member", c17inRef(e, ref))
		if i > 0 {
			k1, t1 := c17parts("C17.all", all[i-1])
			k2, t2 := c17parts("C17.all", e)
			vf.Assert("C17.all.sorted", c17before(k1, t1, k2, t2))
		}
	}

	qk, qt := vf.Byte("q.k"), vf.Byte("q.ts")
	vf.Assume(qt <= 9)
	q := c17key(qk, qt)

	// Get: exact versioned key
	ge, gok := s.Get(q)
	specGet := false
	for _, r := range ref {
		specGet = vf.Or(specGet, vf.And(r.present, vf.And(r.k == qk, r.ts == qt)))
	}
	vf.ObsBool("C17.get.found", gok)
	vf.Assert("C17.get.found-iff", gok == specGet)
	if gok {
		vf.Assert("C17.get.entry", vf.And(c17inRef(ge, ref), vf.StrEq(ge.Key, q)))
	}

	// LowerBound: the first entry not before q
	le, lok := s.LowerBound(q)
	specLB := false
	for _, r := range ref {
		specLB = vf.Or(specLB, vf.And(r.present, vf.Not(c17before(r.k, r.ts, qk, qt))))
	}
	vf.ObsBool("C17.lb.found", lok)
	vf.Assert("C17.lb.found-iff", lok == specLB)
	if lok {
		lk, lt := c17parts("C17.lb", le)
		vf.Assert("C17.lb.member", c17inRef(le, ref))
		vf.Assert("C17.lb.notbefore", vf.Not(c17before(lk, lt, qk, qt)))
		for _, r := range ref { // nothing present lies in [q, result)
			between := vf.And(vf.Not(c17before(r.k, r.ts, qk, qt)), c17before(r.k, r.ts, lk, lt))
			vf.Assert("C17.lb.first", vf.Not(vf.And(r.present, between)))
		}
	}

	// Scan [q, end)
	ek, et := vf.Byte("end.k"), vf.Byte("end.ts")
	vf.Assume(et <= 9)
	sc := s.Scan(q, c17key(ek, et))
	specN := 0
	for _, r := range ref {
		in := vf.And(vf.Not(c17before(r.k, r.ts, qk, qt)), c17before(r.k, r.ts, ek, et))
		specN += int(vf.IteU64(vf.And(r.present, in), 1, 0))
	}
	vf.ObsInt("C17.scan.len", len(sc))
	vf.Assert("C17.scan.count", len(sc) == specN)
	for i, e := range sc {
		k, t := c17parts("C17.scan", e)
		vf.Assert("C17.scan.member", c17inRef(e, ref))
		vf.Assert("C17.scan.inrange", vf.And(vf.Not(c17before(k, t, qk, qt)), c17before(k, t, ek, et)))
		if i > 0 {
			pk, pt := c17parts("C17.scan", sc[i-1])
			vf.Assert("C17.scan.sorted", c17before(pk, pt, k, t))
		}
	}
	vf.Cover("C17.end")
}
