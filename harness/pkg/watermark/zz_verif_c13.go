package watermark

import (
	"context"
	"errors"
	"fmt"
	"time"

	vf "github.com/B1NARY-GR0UP/originium/internal/zzvf"
)

// c13barrier returns when every mark sent before it has been processed completely: the
// consumer handles marks in FIFO order and answers a waiter for index 0 at once.
func c13barrier(w *WaterMark) {
	ch := make(chan struct{})
	w.markC <- mark{ts: 0, waiter: ch}
	<-ch
}

type c13slot struct {
	ts       uint64
	done     bool
	counted  bool   // false for the leading unmatched Done (recovery idiom)
	stood    bool   // Begin only: DoneUntil was already >= ts when it began
}

// outstanding(ts) = begins(ts) - matched dones(ts), as a symbolic count
func c13outstanding(sl []c13slot, ts uint64) int {
	n := 0
	for _, s := range sl {
		same := s.ts == ts
		n += int(vf.IteU64(vf.And(same, vf.Not(s.done)), 1, 0))
		n -= int(vf.IteU64(vf.And(same, vf.And(s.done, s.counted)), 1, 0))
	}
	return n
}

func c13check(tag string, sl []c13slot, du, prev uint64) {
	vf.Assert(tag+".monotone", du >= prev)
	advanced := du > prev
	for _, s := range sl {
		// (b) DoneUntil never ADVANCES to or beyond an index that is begun more often than
		// finished: it may stand at or beyond such an index only if it already stood there
		// when the index began - and then it must stay put until the index is finished.
		unfinished := vf.And(vf.Not(s.done), c13outstanding(sl, s.ts) > 0)
		vf.Assert(tag+".not-past-unfinished", vf.Implies(vf.And(unfinished, advanced), du < s.ts))
		// (c) catches up: every index <= s.ts finished => DoneUntil >= s.ts
		allDone := true
		for _, o := range sl {
			allDone = vf.And(allDone, vf.Implies(o.ts <= s.ts, c13outstanding(sl, o.ts) <= 0))
		}
		vf.Assert(tag+".catches-up", vf.Implies(allDone, du >= s.ts))
	}
}

// VH_C13: K marks with symbolic 64-bit indices and kinds go through the real Begin/Done and
// the real consumer goroutine; after every mark DoneUntil is compared with a reference count.
// Param BATCH=1: all marks are sent first and processed in one go (marks queue up).
func VH_C13() {
	K := vf.Param("K", 4)
	batch := vf.Param("BATCH", 0) == 1
	w := New()
	var sl []c13slot
	prev := uint64(0)
	for j := 0; j < K; j++ {
		ts := vf.Uint64(fmt.Sprintf("m%d.ts", j))
		done := vf.Bool(fmt.Sprintf("m%d.done", j))
		if j > 0 {
			// precondition: a Done completes an outstanding Begin (except the leading recovery Done)
			vf.Assume(vf.Implies(done, c13outstanding(sl, ts) > 0))
		}
		before := w.DoneUntil()
		if batch {
			before = 0 // not observable between queued marks; "stood" is decided at the end
		}
		if done {
			w.Done(ts)
		} else {
			w.Begin(ts)
		}
		sl = append(sl, c13slot{ts: ts, done: done, counted: j > 0, stood: vf.And(vf.Not(done), before >= ts)})
		if !batch {
			c13barrier(w)
			du := w.DoneUntil()
			vf.ObsU64(fmt.Sprintf("C13.du%d", j), du)
			c13check("C13", sl, du, prev)
			prev = du
		}
	}
	if batch {
		c13barrier(w)
		du := w.DoneUntil()
		vf.ObsU64("C13.du", du)
		// in a batch the watermark may legitimately have stood at an index when a later Begin of
		// it was consumed; only monotonicity, catch-up and the strict case are checked
		// only catch-up is checked for a batch; "never advances past unfinished work" needs the
		// per-mark observation of the non-batch variant
		c13check("C13.batch", sl, du, du)
	}
	vf.Cover("C13.end")
}

type c13ctx struct{ done chan struct{} }

var errC13 = errors.New("c13 context cancelled")

func (c *c13ctx) Deadline() (time.Time, bool) { return time.Time{}, false }
func (c *c13ctx) Done() <-chan struct{}       { return c.done }
func (c *c13ctx) Err() error                  { return errC13 }
func (c *c13ctx) Value(any) any               { return nil }

var _ context.Context = (*c13ctx)(nil)

// VH_C13_Wait: a goroutine blocks in WaitForMark(ctx, wt) while K marks are processed; the
// context may be cancelled at a chosen position.
func VH_C13_Wait() {
	K := vf.Param("K", 3)
	w := New()
	wt := vf.Uint64("wait.ts")
	ctx := &c13ctx{done: make(chan struct{})}
	cancelAt := vf.Choose("cancelAt", 0, K+1) // K+1 = never
	var err error
	var duAtReturn uint64
	retC := make(chan struct{})
	started := make(chan struct{})
	go func() {
		close(started)
		err = w.WaitForMark(ctx, wt)
		duAtReturn = w.DoneUntil() // what the released goroutine itself sees
		close(retC)
	}()
	<-started // the waiter is on its way into WaitForMark before the marks below are sent
	var sl []c13slot
	cancelled := false
	for j := 0; j <= K; j++ {
		if j == cancelAt {
			close(ctx.done)
			cancelled = true
		}
		if j == K {
			break
		}
		ts := vf.Uint64(fmt.Sprintf("m%d.ts", j))
		done := vf.Bool(fmt.Sprintf("m%d.done", j))
		if j > 0 {
			vf.Assume(vf.Implies(done, c13outstanding(sl, ts) > 0))
		}
		if done {
			w.Done(ts)
		} else {
			w.Begin(ts)
		}
		sl = append(sl, c13slot{ts: ts, done: done, counted: j > 0})
		c13barrier(w)
	}
	c13barrier(w)
	du := w.DoneUntil()
	vf.ObsU64("C13.wait.du", du)
	if vf.Or(du >= wt, cancelled) {
		// it must return
		if vf.Native() {
			select {
			case <-retC:
			case <-time.After(5 * time.Second):
				vf.Assert("C13.wait.returns", false)
				return
			}
		} else {
			<-retC // a deadlock here is reported by the engine
		}
		if err == nil {
			vf.Assert("C13.wait.nil-only-when-reached", w.DoneUntil() >= wt)
			vf.Assert("C13.wait.nil-only-when-reached-seen-by-waiter", duAtReturn >= wt)
		} else {
			vf.Assert("C13.wait.ctx-error", vf.And(cancelled, err == errC13))
		}
		vf.Cover("C13.wait.returned")
	} else {
		returned := false
		select {
		case <-retC:
			returned = true
		default:
		}
		vf.Assert("C13.wait.blocks-until-reached", !returned)
		vf.Cover("C13.wait.blocked")
	}
	vf.Cover("C13.wait.end")
}

// VH_C13_Overflow: more marks in flight than the channel buffer (the sender blocks until the
// consumer catches up); mostly concrete indices, two symbolic ones.
func VH_C13_Overflow() {
	w := New()
	a, b := vf.Uint64("a"), vf.Uint64("b")
	vf.Assume(vf.And(a >= 1000, a < b))
	n := _markCBufferSize + 2
	for i := 1; i <= n; i++ {
		w.Begin(uint64(i))
	}
	w.Begin(a)
	w.Begin(b)
	for i := n; i >= 1; i-- {
		w.Done(uint64(i))
	}
	c13barrier(w)
	vf.Assert("C13.overflow.low", w.DoneUntil() == uint64(n))
	w.Done(b)
	c13barrier(w)
	vf.Assert("C13.overflow.held", w.DoneUntil() == uint64(n))
	w.Done(a)
	c13barrier(w)
	vf.ObsU64("C13.overflow.du", w.DoneUntil())
	vf.Assert("C13.overflow.final", w.DoneUntil() == b)
	vf.Cover("C13.overflow.end")
}
