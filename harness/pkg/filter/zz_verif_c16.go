package filter

import (
	"fmt"

	vf "github.com/B1NARY-GR0UP/originium/internal/zzvf"
	"github.com/B1NARY-GR0UP/originium/table"
	"github.com/B1NARY-GR0UP/originium/types"
)

// VH_C16: a filter built by the real Build/New/Add (real murmur3-32, bit set with symbolic
// indices) from N entries with symbolic user-key bytes answers Contains == true for every
// member, also after Contains calls on the other members.
// Params: N entries; KL base user-key length (entry i has length (KL+i*STEP) % 10);
// DUP=1: entry 1 is another version of entry 0's key; SYM: number of entries with symbolic
// key bytes (the rest are concrete, for large N); DECODE=1: the filter is built from entries
// that went through Data.Encode/Decode (the recovery path).
func VH_C16() {
	n, kl, step := vf.Param("N", 2), vf.Param("KL", 3), vf.Param("STEP", 1)
	nsym := vf.Param("SYM", n)
	dup := vf.Param("DUP", 0) == 1
	var users []string
	var kvs []types.Entry
	for i := 0; i < n; i++ {
		l := (kl + i*step) % 10
		b := make([]byte, l)
		for j := range b {
			if i < nsym {
				b[j] = vf.Byte(fmt.Sprintf("k%d_%d", i, j))
			} else {
				b[j] = byte(37*i + 11*j + i>>8)
			}
		}
		u := string(b)
		if dup && i == 1 {
			u = users[0]
		}
		users = append(users, u)
		kvs = append(kvs, types.Entry{Key: u + "@" + string([]byte{'0' + byte(i%10)}), Value: []byte{1}, Version: int64(i % 10)})
	}
	if vf.Param("DECODE", 0) == 1 {
		d := table.Data{Entries: kvs}
		enc, err := d.Encode()
		vf.Assert("C16.encode", err == nil)
		enc = append([]byte(nil), enc...)
		var back table.Data
		vf.Assert("C16.decode", back.Decode(enc) == nil)
		kvs = back.Entries
	}
	f := Build(kvs)
	vf.ObsInt("C16.bits", len(f.bitset))
	vf.ObsInt("C16.hashes", len(f.hashFns))
	probes := n
	if probes > 8 {
		probes = 8
	}
	nonMember := vf.Param("NONMEMBER", 0) == 1
	for i := 0; i < probes; i++ {
		if nonMember {
			// a lookup of some other key (any answer is allowed) must not disturb later lookups
			_ = f.Contains(string([]byte{vf.Byte(fmt.Sprintf("other%d_0", i)), vf.Byte(fmt.Sprintf("other%d_1", i)), 'x'}))
		}
		vf.Assert("C16.member", f.Contains(users[i]))
	}
	// once more, in reverse order, after all the other queries
	for i := probes - 1; i >= 0; i-- {
		vf.Assert("C16.member.again", f.Contains(users[i]))
	}
	vf.Cover("C16.end")
}
