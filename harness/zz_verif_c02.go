package originium

import (
	vf "github.com/B1NARY-GR0UP/originium/internal/zzvf"
	"github.com/B1NARY-GR0UP/originium/pkg/logger"
)

// VH_C02: committed state survives Close/Open cycles placed at arbitrary positions of a
// workload, commits after a reopen supersede everything before it, and the memtable, block,
// queue sizes may change between runs (L0TargetNum/LevelRatio stay fixed).
// Params: N total transactions, CYCLES (1 or 2), KEYS, K0, DRAIN, OPS2 ...
func VH_C02() {
	logger.SetLogger(vlog{})
	n, nk, k0 := vf.Param("N", 3), vf.Param("KEYS", 2), vf.Param("K0", 0)
	cycles := vf.Param("CYCLES", 1)
	drain := vf.Param("DRAIN", 0) == 1
	keys := vuniverse[k0 : k0+nk]
	dir := vf.Dir()
	cfg := vconfig("")
	db, err := Open(dir, cfg)
	vf.Assert("C02.open", err == nil)
	mo := newVModel()
	left := n
	for c := 0; c < cycles; c++ {
		// position of the close: after 0..left transactions of this run
		k := vf.Choose("closeAfter", 0, left)
		left -= k
		stall := vf.Param("STALL", 0) == 1
		if stall {
			// a flusher slower than the writers: Close finds a non-empty flush queue
			db.manager.mu.Lock()
		}
		vworkload(db, mo, keys, "C02.run"+string(rune('0'+c)), k, drain)
		if stall {
			db.manager.mu.Unlock()
		}
		if vf.Param("PRECLOSE_DRAIN", 0) == 1 {
			vDrain(db)
		}
		db.Close()
		vf.Cover("C02.closed")
		// sizes may change from one run to the next; level geometry stays
		// (memtable threshold: a fresh symbolic value; queue length and block size: flipped)
		cfg2 := cfg
		cfg2.MemtableByteThreshold = vf.Int("r"+string(rune('0'+c))+".memThr", 1, 120)
		cfg2.ImmutableBuffer = 1 - cfg.ImmutableBuffer%2
		cfg2.DataBlockByteThreshold = 41 - cfg.DataBlockByteThreshold
		cfg2.SkipListMaxLevel = 1 // (tower heights come from an uncontrolled random source natively; levels are C17's subject)
		db, err = Open(dir, cfg2)
		vf.Assert("C02.reopen", err == nil)
		mo.check(db, "C02.reopened"+string(rune('0'+c)), keys)
	}
	// the store stays writable and new commits supersede the old state
	if vf.Param("STALL", 0) == 0 {
		vworkload(db, mo, keys, "C02.last", left, drain)
	}
	vDrain(db)
	mo.check(db, "C02.final", keys)
	db.Close()
	db, err = Open(dir, cfg)
	vf.Assert("C02.reopen-final", err == nil)
	mo.check(db, "C02.final-reopened", keys)
	db.Close()
	vf.Cover("C02.end")
}

// VH_C02_ManyFiles: more than ten tables in one level (file names 0-10.db sort before 0-2.db),
// close/reopen, further flushes and a compaction, close/reopen: every key keeps its value.
// Concrete keys; values symbolic.
func VH_C02_ManyFiles() {
	logger.SetLogger(vlog{})
	n := vf.Param("N", 12)
	tg := "C02.many"
	if vf.Param("C09", 0) == 1 {
		tg = "C09.many" // the same scenario decides C09's "handles rebuilt by recovery" clause
	}
	if vf.Param("C03", 0) == 1 {
		tg = "C03.many" // ... and C03's "the recovered store accepts and retains further commits"
	}
	cfg := Config{SkipListMaxLevel: 1, SkipListP: 0.5, MemtableByteThreshold: 1, ImmutableBuffer: 1, DataBlockByteThreshold: 1,
		L0TargetNum: vf.Param("L0T", 12), LevelRatio: 10}
	dir := vf.Dir()
	db, err := Open(dir, cfg)
	vf.Assert(tg+".open", err == nil)
	mo := newVModel()
	var keys []string
	put := func(i int) {
		k := "key" + string(rune('a'+i))
		v := []byte{vf.Byte("mv" + string(rune('a'+i)))}
		keys = append(keys, k)
		vf.Assert(tg+".commit", db.Update(func(txn *Txn) error { return txn.Set(k, v) }) == nil)
		mo.set(k, v)
		vDrain(db)
	}
	for i := 0; i < n; i++ {
		put(i)
	}
	mo.check(db, tg+".before", keys)
	db.Close()
	db, err = Open(dir, cfg)
	vf.Assert(tg+".reopen", err == nil)
	mo.check(db, tg+".reopened", keys)
	put(n)     // a further flush into the level that holds idx >= 10
	put(n + 1) // and one that triggers the compaction
	mo.check(db, tg+".after", keys)
	l0, deeper := vfiles(db)
	vf.ObsInt(tg+".l0", l0)
	vf.ObsInt(tg+".deeper", deeper)
	db.Close()
	db, err = Open(dir, cfg)
	vf.Assert(tg+".reopen2", err == nil)
	mo.check(db, tg+".reopened2", keys)
	db.Close()
	vf.Cover(tg+".end")
}
