package wal

import (
	"fmt"

	vf "github.com/B1NARY-GR0UP/originium/internal/zzvf"
	"github.com/B1NARY-GR0UP/originium/pkg/logger"
	"github.com/B1NARY-GR0UP/originium/types"
)

type c11log struct{}

func (c11log) Debugf(string, ...any)     {}
func (c11log) Infof(string, ...any)      {}
func (c11log) Warnf(string, ...any)      {}
func (c11log) Errorf(string, ...any)     {}
func (c11log) Fatalf(string, ...any)     {}
func (c11log) Panicf(f string, a ...any) { panic(fmt.Sprintf(f, a...)) }

func c11walEntry(name string, kl, vl int) types.Entry {
	kb := make([]byte, kl)
	for j := range kb {
		kb[j] = vf.Byte(fmt.Sprintf("%s.k%d", name, j))
	}
	vb := make([]byte, vl)
	for j := range vb {
		vb[j] = vf.Byte(fmt.Sprintf("%s.v%d", name, j))
	}
	return types.Entry{Key: string(kb), Value: vb, Tombstone: vf.Bool(name + ".del"), Version: int64(vf.Uint64(name + ".ver"))}
}

// VH_C11_WAL: K Write calls (1-2 entries each, symbolic content) then Read returns exactly
// the written sequence; also through Close + Open of the same file.
func VH_C11_WAL() {
	logger.SetLogger(c11log{})
	K := vf.Param("K", 2)
	w, err := Create(vf.Dir())
	vf.Assert("C11.wal.create", err == nil)
	var want []types.Entry
	for i := 0; i < K; i++ {
		es := []types.Entry{c11walEntry(fmt.Sprintf("w%d_0", i), (i+2)%3, (i+1)%3)}
		if vf.Choose("two", 0, 1) == 1 {
			es = append(es, c11walEntry(fmt.Sprintf("w%d_1", i), 1, 0))
		}
		vf.Assert("C11.wal.write", w.Write(es...) == nil)
		want = append(want, es...)
	}
	check := func(tag string, got []types.Entry, err error) {
		vf.Assert(tag+".read-ok", err == nil)
		vf.ObsInt(tag+".count", len(got))
		vf.Assert(tag+".count", len(got) == len(want))
		if len(got) != len(want) {
			return
		}
		for i := range want {
			vf.Assert(tag+".key", vf.StrEq(got[i].Key, want[i].Key))
			vf.Assert(tag+".value", vf.BytesEq(got[i].Value, want[i].Value))
			vf.Assert(tag+".tomb", got[i].Tombstone == want[i].Tombstone)
			vf.Assert(tag+".version", got[i].Version == want[i].Version)
		}
	}
	got, err := w.Read()
	check("C11.wal", got, err)
	vf.Assert("C11.wal.close", w.Close() == nil)
	w2, err := Open(w.path)
	vf.Assert("C11.wal.open", err == nil)
	got2, err := w2.Read()
	check("C11.wal.reopened", got2, err)
	vf.Assert("C11.wal.delete", w2.Delete() == nil)
	vf.Cover("C11.wal.end")
}
