package originium

// Shared helpers of the verification harnesses (overlaid into /repo by /verif; never
// part of the repository).  Harness entry points are the VH_* functions.

import (
	"container/list"
	"fmt"
	"os"
	"time"

	"github.com/B1NARY-GR0UP/originium/pkg/filter"
	"github.com/B1NARY-GR0UP/originium/table"

	vf "github.com/B1NARY-GR0UP/originium/internal/zzvf"
	"github.com/B1NARY-GR0UP/originium/types"
)

// vlog is a silent logger whose Panicf still panics (as the default logger's does).
type vlog struct{}

func (vlog) Debugf(string, ...any) {}
func (vlog) Infof(string, ...any)  {}
func (vlog) Warnf(string, ...any)  {}
func (vlog) Errorf(string, ...any) {}
func (vlog) Fatalf(string, ...any) {}
func (vlog) Panicf(f string, a ...any) { panic(fmt.Sprintf(f, a...)) }

// vent is a versioned entry described by components: user key bytes (length 1 or 2),
// timestamp 0..99, value byte, tombstone flag.  Specifications compare components, never
// the encoded "key@ts" strings, so ParseKey/ParseTs/CompareKeys are under test as well.
type vent struct {
	k0, k1 byte
	kl     int // user key length: 1 or 2
	ts     byte
	v      byte
	tomb   bool
}

func (e vent) user() string {
	if e.kl == 1 {
		return string([]byte{e.k0})
	}
	return string([]byte{e.k0, e.k1})
}

// vts renders a timestamp 0..99 in decimal without a leading zero (as strconv does).
func vts(ts byte) string {
	if ts < 10 {
		return string([]byte{'0' + ts})
	}
	return string([]byte{'0' + ts/10, '0' + ts%10})
}

func (e vent) key() string { return e.user() + "@" + vts(e.ts) }

func (e vent) entry() types.Entry {
	return types.Entry{Key: e.key(), Value: []byte{e.v}, Tombstone: e.tomb, Version: int64(e.ts)}
}

// vsameUser / vuserLess compare user keys on components (bytewise lexicographic order).
func vsameUser(a, b vent) bool {
	if a.kl != b.kl {
		return false
	}
	if a.kl == 1 {
		return a.k0 == b.k0
	}
	return vf.And(a.k0 == b.k0, a.k1 == b.k1)
}

func vuserLess(a, b vent) bool {
	switch {
	case a.kl == 1 && b.kl == 1:
		return a.k0 < b.k0
	case a.kl == 1 && b.kl == 2:
		return a.k0 <= b.k0 // "x" < "xy"
	case a.kl == 2 && b.kl == 1:
		return a.k0 < b.k0
	}
	return vf.Or(a.k0 < b.k0, vf.And(a.k0 == b.k0, a.k1 < b.k1))
}

// vbefore: a sorts strictly before b (user key ascending, timestamp descending).
func vbefore(a, b vent) bool {
	return vf.Or(vuserLess(a, b), vf.And(vsameUser(a, b), a.ts > b.ts))
}

// vsymEnt makes a symbolic entry; klen fixes the user-key length (1 or 2), maxTs bounds ts.
func vsymEnt(name string, klen int, maxTs byte) vent {
	e := vent{k0: vf.Byte(name + ".k0"), kl: klen, ts: vf.Byte(name + ".ts"), v: vf.Byte(name + ".v"), tomb: vf.Bool(name + ".del")}
	if klen == 2 {
		e.k1 = vf.Byte(name + ".k1")
	}
	vf.Assume(e.ts <= maxTs)
	return e
}

// vspec is the reference answer of a versioned lookup over a set of entries: the entry of
// the query's user key with the largest timestamp <= the query's.
type vspec struct {
	found bool
	ts, v byte
	tomb  bool
}

func vlookupSpec(all []vent, q vent) vspec {
	var s vspec
	for _, e := range all {
		hit := vf.And(vf.And(vsameUser(e, q), e.ts <= q.ts), vf.Or(vf.Not(s.found), e.ts > s.ts))
		s.ts = vf.IteByte(hit, e.ts, s.ts)
		s.v = vf.IteByte(hit, e.v, s.v)
		s.tomb = vf.Ite(hit, e.tomb, s.tomb)
		s.found = vf.Or(s.found, hit)
	}
	return s
}

// vcheckLookup compares a lookup result (found, entry) with the reference.
func vcheckLookup(tag string, ok bool, got types.Entry, q vent, s vspec) {
	same := false
	if ok {
		same = types.IsSameKey(q.key(), got.Key)
	}
	found := vf.And(ok, same)
	vf.ObsBool(tag+".found", found)
	vf.Assert(tag+".found-iff", found == s.found)
	if vf.And(found, s.found) {
		vf.Assert(tag+".version", got.Version == int64(s.ts))
		vf.Assert(tag+".key", vf.StrEq(got.Key, vent{k0: q.k0, k1: q.k1, kl: q.kl, ts: s.ts}.key()))
		vf.Assert(tag+".value", vf.And(len(got.Value) == 1, vf.BytesEq(got.Value, []byte{s.v})))
		vf.Assert(tag+".tomb", got.Tombstone == s.tomb)
		vf.ObsInt(tag+".version", int(got.Version))
	}
}

// vplaceTable stores a table at an arbitrary level the way flushToL0 stores one at level 0
// (real filter.Build and table.Build; file written directly).
func vplaceTable(lm *levelManager, level int, kvs []types.Entry) {
	lm.mu.Lock()
	defer lm.mu.Unlock()
	bf := filter.Build(kvs)
	idx, tb := table.Build(kvs, lm.dataBlockSize, level)
	for len(lm.levels) <= level {
		lm.levels = append(lm.levels, list.New())
	}
	th := tableHandle{levelIdx: lm.maxLevelIdx(level) + 1, filter: *bf, dataBlockIndex: idx}
	lm.levels[level].PushBack(th)
	fd, err := os.OpenFile(lm.fileName(level, th.levelIdx), os.O_CREATE|os.O_RDWR|os.O_TRUNC, 0600)
	vf.Assert("place.open", err == nil)
	_, err = fd.Write(tb)
	vf.Assert("place.write", err == nil)
	_ = fd.Close()
}

var _ = time.Now

// ---- system layer helpers (public API only, plus quiescence detection) ----

// vuniverse: adversarial user keys: '@' inside a key, a byte below '@' after a shared
// prefix, a key that looks like a versioned key of another one.
var vuniverse = []string{"a", "a@", "a!", "b", "a@1"}

// vDrain lets the background flusher/compactor finish.  Engine: run every other goroutine
// to quiescence.  Native: poll until the flush queue and the immutable list are empty.
func vDrain(db *DB) {
	vf.Drain()
	if vf.Native() {
		// wait while the background work makes progress: up to 60 s in total (heavily loaded
		// machines), but give up when nothing changed for 3 s (a stuck queue is a finding of
		// the assertions that follow, not a reason to wait)
		last, lastChange := -1, time.Now()
		for start := time.Now(); time.Since(start) < 60*time.Second; {
			db.mu.RLock()
			n := db.immutables.Len()
			db.mu.RUnlock()
			q := len(db.flushC)
			if n == 0 && q == 0 {
				return
			}
			if n*1000+q != last {
				last, lastChange = n*1000+q, time.Now()
			} else if time.Since(lastChange) > 3*time.Second {
				return
			}
			time.Sleep(200 * time.Microsecond)
		}
	}
}

// vmodel is the reference state: last committed value per key (live=false: deleted/absent).
type vmodel struct {
	val  map[string][]byte
	live map[string]bool
}

func newVModel() *vmodel { return &vmodel{val: map[string][]byte{}, live: map[string]bool{}} }

func (mo *vmodel) set(k string, v []byte) { mo.live[k] = true; mo.val[k] = v }
func (mo *vmodel) del(k string)           { mo.live[k] = false }

// check reads every key in one read-only transaction and compares with the model.
func (mo *vmodel) check(db *DB, tag string, keys []string) {
	err := db.View(func(txn *Txn) error {
		for _, k := range keys {
			got, ok := txn.Get(k)
			vf.ObsBool(tag+"."+k+".found", ok)
			vf.Assert(tag+".found."+k, ok == mo.live[k])
			if vf.And(ok, mo.live[k]) {
				vf.Assert(tag+".value."+k, vf.BytesEq(got, mo.val[k]))
				vf.ObsBytes(tag+"."+k+".value", got)
			}
		}
		return nil
	})
	vf.Assert(tag+".view-ok", err == nil)
}

// vconfig: a configuration that forces rotation, flush and multi-level compaction with a
// handful of tiny entries.  Thresholds are symbolic: every comparison against them
// partitions their range, so every rotation/block pattern some threshold produces is covered.
func vconfig(prefix string) Config {
	if fix := vf.Param("MEMFIX", 0); fix > 0 {
		// a job about transaction logic only: no rotation
		return Config{SkipListMaxLevel: 1, SkipListP: 0.5, MemtableByteThreshold: fix, ImmutableBuffer: 1, DataBlockByteThreshold: 40, L0TargetNum: 1, LevelRatio: 1}
	}
	return Config{
		SkipListMaxLevel:       1, // native tower heights are random and change memtable sizes; levels are C17's subject
		SkipListP:              0.5,
		MemtableByteThreshold:  vf.Int(prefix+"memThr", 1, 120),
		ImmutableBuffer:        vf.Choose(prefix+"ib", vf.Param("IBMIN", 0), vf.Param("IBMAX", 1)),
		DataBlockByteThreshold: []int{1, 40}[vf.Choose(prefix+"blk", 0, vf.Param("BLKMAX", 1))], // one entry per block / one block (arbitrary partitions: C10)
		L0TargetNum:            vf.Choose(prefix+"l0", vf.Param("L0MIN", 1), vf.Param("L0MAX", 1)),
		LevelRatio:             vf.Choose(prefix+"ratio", 1, vf.Param("RATIOMAX", 1)),
	}
}

// vfiles counts the sstable files per level in the directory (to know that flushes and
// compactions happened).
func vfiles(db *DB) (l0, deeper int) {
	db.manager.mu.Lock()
	defer db.manager.mu.Unlock()
	for i, l := range db.manager.levels {
		if i == 0 {
			l0 += l.Len()
		} else {
			deeper += l.Len()
		}
	}
	return
}
