package originium

import (
	"context"
	"fmt"

	vf "github.com/B1NARY-GR0UP/originium/internal/zzvf"
	"github.com/B1NARY-GR0UP/originium/pkg/logger"
	"github.com/B1NARY-GR0UP/originium/types"
)

// VH_C09: R rounds of {flush T tables of E symbolic sorted entries, checkAndCompact} on a
// real levelManager whose discard watermark w was set through the real readMark; then the
// real lookup of a symbolic (key, r >= w) must equal the reference computed on the entries
// that were flushed (tombstones count as versions).
// Params: R, T, E, L0T (l0TargetNum), RATIO, RECOVER (1: also query handles rebuilt by
// recover()), KL2 (leading entries with 2-byte user keys), QKL, MAXTS, WM (0: watermark 0),
// BLK (data block size: 0 = one entry per block; symbolic block sizes are C10's subject).
func VH_C09() {
	logger.SetLogger(vlog{})
	R, T, E := vf.Param("R", 1), vf.Param("T", 2), vf.Param("E", 2)
	kl2, qkl, maxTs := vf.Param("KL2", 0), vf.Param("QKL", 1), byte(vf.Param("MAXTS", 9))
	klmask := vf.Param("KLMASK", 0) // bit n set: the n-th entry (in flush order) has a 2-byte user key
	dir := vf.Dir()
	db := &DB{oracle: newOracle()}
	lm := &levelManager{dir: dir, l0TargetNum: vf.Param("L0T", 1), ratio: vf.Param("RATIO", 2), dataBlockSize: vf.Param("BLK", 0), logger: vlog{}, db: db}
	db.manager = lm

	// watermark through the real path: readMark.Done(w), consumed by the watermark goroutine
	w := byte(0)
	if vf.Param("WM", 1) == 1 {
		w = vf.Byte("w")
		vf.Assume(w <= maxTs)
		db.oracle.readMark.Done(uint64(w))
		_ = db.oracle.readMark.WaitForMark(context.Background(), uint64(w))
		vf.Assert("C09.watermark-set", db.oracle.discardAtOrBelow() == uint64(w))
	}

	var all []vent
	n := 0
	for r := 0; r < R; r++ {
		for t := 0; t < T; t++ {
			var es []vent
			var kvs []types.Entry
			ne := E
			if r > 0 {
				ne = vf.Param("E2", E)
			}
			if es := vf.Param("ES", 0); es > 0 { // per-table entry counts as decimal digits
				ne = es
				for k := 0; k < T-1-t; k++ {
					ne /= 10
				}
				ne %= 10
			}
			for i := 0; i < ne; i++ {
				kl := 1
				if n < kl2 || (klmask>>uint(n))&1 == 1 {
					kl = 2
				}
				n++
				e := vsymEnt(fmt.Sprintf("e%d_%d_%d", r, t, i), kl, maxTs)
				if i > 0 {
					vf.Assume(vbefore(es[i-1], e))
				}
				for _, o := range all {
					vf.Assume(vf.Not(vf.And(vsameUser(o, e), o.ts == e.ts)))
				}
				es = append(es, e)
				kvs = append(kvs, e.entry())
			}
			all = append(all, es...)
			vf.Assert("C09.flush", lm.flushToL0(kvs) == nil)
		}
		lm.checkAndCompact()
	}
	levels := len(lm.levels)
	vf.ObsInt("C09.levels", levels)
	if levels > 1 && lm.levels[1].Len() > 0 {
		vf.Cover("C09.compacted-to-L1")
	}
	if levels > 2 && lm.levels[2].Len() > 0 {
		vf.Cover("C09.compacted-to-L2")
	}

	q := vent{k0: vf.Byte("q.k0"), kl: qkl, ts: vf.Byte("q.ts")}
	if qkl == 2 {
		q.k1 = vf.Byte("q.k1")
	}
	vf.Assume(vf.And(q.ts <= maxTs, q.ts >= w)) // permitted reads: at or above the watermark
	s := vlookupSpec(all, q)
	got, ok := lm.searchLowerBound(q.key())
	vcheckLookup("C09", ok, got, q, s)

	if vf.Param("RECOVER", 0) == 1 {
		lm2 := &levelManager{dir: dir, l0TargetNum: lm.l0TargetNum, ratio: lm.ratio, dataBlockSize: 16, logger: vlog{}, db: db}
		lm2.recover()
		got2, ok2 := lm2.searchLowerBound(q.key())
		vcheckLookup("C09.recovered", ok2, got2, q, s)
		vf.Cover("C09.recovered")
	}
	vf.Cover("C09.end")
}
