package table

import (
	"fmt"

	vf "github.com/B1NARY-GR0UP/originium/internal/zzvf"
	"github.com/B1NARY-GR0UP/originium/types"
)

// digit i (from the left) of the decimal parameter v with n digits
func c11digit(v, n, i int) int {
	for k := 0; k < n-1-i; k++ {
		v /= 10
	}
	return v % 10
}

// c11entries: N entries; entry i has key length digit_i(KL) and value length digit_i(VL);
// all bytes, the tombstone flag and the 64-bit version are symbolic.
func c11entries(prefix string) []types.Entry {
	n := vf.Param("N", 2)
	kl, vl := vf.Param("KL", 21), vf.Param("VL", 10)
	var es []types.Entry
	for i := 0; i < n; i++ {
		kb := make([]byte, c11digit(kl, n, i))
		for j := range kb {
			kb[j] = vf.Byte(fmt.Sprintf("%sk%d_%d", prefix, i, j))
		}
		vb := make([]byte, c11digit(vl, n, i))
		for j := range vb {
			vb[j] = vf.Byte(fmt.Sprintf("%sv%d_%d", prefix, i, j))
		}
		es = append(es, types.Entry{Key: string(kb), Value: vb, Tombstone: vf.Bool(fmt.Sprintf("%sdel%d", prefix, i)), Version: int64(vf.Uint64(fmt.Sprintf("%sver%d", prefix, i)))})
	}
	return es
}

func c11sameEntries(tag string, got, want []types.Entry) {
	vf.ObsInt(tag+".count", len(got))
	vf.Assert(tag+".count", len(got) == len(want))
	if len(got) != len(want) {
		return
	}
	for i := range want {
		vf.Assert(tag+".key", vf.StrEq(got[i].Key, want[i].Key))
		vf.Assert(tag+".value", vf.BytesEq(got[i].Value, want[i].Value))
		vf.Assert(tag+".tomb", got[i].Tombstone == want[i].Tombstone)
		vf.Assert(tag+".version", got[i].Version == want[i].Version)
	}
}

// VH_C11_Data: Decode(Encode(d)) == d, and the returned bytes stay intact while other
// encoders run (pool reuse).
func VH_C11_Data() {
	d := Data{Entries: c11entries("")}
	enc, err := d.Encode()
	vf.Assert("C11.data.encode-ok", err == nil)
	snapshot := append([]byte(nil), enc...)

	var back Data
	vf.Assert("C11.data.decode-ok", back.Decode(enc) == nil)
	c11sameEntries("C11.data", back.Entries, d.Entries)
	vf.Cover("C11.data.roundtrip")

	// stability: further encoder activity with fresh data must not change enc
	other := Data{Entries: []types.Entry{{Key: string([]byte{vf.Byte("ok0"), vf.Byte("ok1")}), Value: []byte{vf.Byte("ov")}, Version: 7}}}
	_, _ = other.Encode()
	m := Meta{CreatedUnix: int64(vf.Uint64("om")), Level: 3}
	_, _ = m.Encode()
	vf.Assert("C11.data.stable", vf.BytesEq(enc, snapshot))
	var again Data
	vf.Assert("C11.data.decode-again-ok", again.Decode(snapshot) == nil)
	c11sameEntries("C11.data.again", again.Entries, d.Entries)
	vf.Cover("C11.data.end")
}

func c11handle(name string) BlockHandle {
	return BlockHandle{Offset: vf.Uint64(name + ".off"), Length: vf.Uint64(name + ".len")}
}

// VH_C11_Index: Index round trip with symbolic keys and handles; stability.
func VH_C11_Index() {
	n := vf.Param("N", 2)
	kl := vf.Param("KL", 21)
	idx := Index{DataBlock: c11handle("db")}
	for i := 0; i < n; i++ {
		l := c11digit(kl, n, i)
		sk, ek := make([]byte, l), make([]byte, (l+1)%4)
		for j := range sk {
			sk[j] = vf.Byte(fmt.Sprintf("s%d_%d", i, j))
		}
		for j := range ek {
			ek[j] = vf.Byte(fmt.Sprintf("e%d_%d", i, j))
		}
		idx.Entries = append(idx.Entries, IndexEntry{StartKey: string(sk), EndKey: string(ek), DataHandle: c11handle(fmt.Sprintf("h%d", i))})
	}
	enc, err := idx.Encode()
	vf.Assert("C11.index.encode-ok", err == nil)
	snapshot := append([]byte(nil), enc...)
	var back Index
	vf.Assert("C11.index.decode-ok", back.Decode(enc) == nil)
	vf.Assert("C11.index.datablock", back.DataBlock == idx.DataBlock)
	vf.Assert("C11.index.count", len(back.Entries) == n)
	if len(back.Entries) == n {
		for i := 0; i < n; i++ {
			vf.Assert("C11.index.start", vf.StrEq(back.Entries[i].StartKey, idx.Entries[i].StartKey))
			vf.Assert("C11.index.end", vf.StrEq(back.Entries[i].EndKey, idx.Entries[i].EndKey))
			vf.Assert("C11.index.handle", back.Entries[i].DataHandle == idx.Entries[i].DataHandle)
		}
	}
	other := Index{DataBlock: c11handle("odb"), Entries: []IndexEntry{{StartKey: "x", EndKey: string([]byte{vf.Byte("oe")})}}}
	_, _ = other.Encode()
	vf.Assert("C11.index.stable", vf.BytesEq(enc, snapshot))
	vf.Cover("C11.index.end")
}

// VH_C11_FooterMeta: Footer and Meta round trips (64-bit symbolic fields), stability, and
// rejection of a wrong magic number.
func VH_C11_FooterMeta() {
	f := Footer{MetaBlock: c11handle("mb"), IndexBlock: c11handle("ib"), Magic: _magic}
	fe, err := f.Encode()
	vf.Assert("C11.footer.encode-ok", err == nil)
	vf.Assert("C11.footer.size", len(fe) == 40)
	fsnap := append([]byte(nil), fe...)
	m := Meta{CreatedUnix: int64(vf.Uint64("created")), Level: vf.Uint64("level")}
	me, err := m.Encode()
	vf.Assert("C11.meta.encode-ok", err == nil)
	msnap := append([]byte(nil), me...)

	var fb Footer
	vf.Assert("C11.footer.decode-ok", fb.Decode(fe) == nil)
	vf.Assert("C11.footer.equal", fb == f)
	var mb Meta
	vf.Assert("C11.meta.decode-ok", mb.Decode(me) == nil)
	vf.Assert("C11.meta.equal", mb == m)

	f2 := Footer{MetaBlock: c11handle("mb2"), IndexBlock: c11handle("ib2"), Magic: _magic}
	_, _ = f2.Encode()
	vf.Assert("C11.footer.stable", vf.BytesEq(fe, fsnap))
	vf.Assert("C11.meta.stable", vf.BytesEq(me, msnap))

	bad := Footer{Magic: vf.Uint64("badmagic")}
	vf.Assume(bad.Magic != _magic)
	be, _ := bad.Encode()
	var bb Footer
	vf.Assert("C11.footer.badmagic", bb.Decode(append([]byte(nil), be...)) == ErrInvalidMagic)
	vf.Cover("C11.footermeta.end")
}

// VH_C11_Table: Build lays out data blocks, meta, index and footer; parsing the returned
// bytes back the way recovery does yields the original entries and the returned index.
func VH_C11_Table() {
	es := c11entries("")
	blk := vf.Int("blk", 0, 8)
	level := vf.Param("LEVEL", 1)
	idx, tb := Build(es, blk, level)
	snapshot := append([]byte(nil), tb...)
	vf.ObsInt("C11.table.blocks", len(idx.Entries))

	vf.Assert("C11.table.minsize", len(tb) >= 40)
	var f Footer
	vf.Assert("C11.table.footer-ok", f.Decode(tb[len(tb)-40:]) == nil)
	ib := tb[f.IndexBlock.Offset : f.IndexBlock.Offset+f.IndexBlock.Length]
	var ridx Index
	vf.Assert("C11.table.index-ok", ridx.Decode(ib) == nil)
	vf.Assert("C11.table.index-datablock", ridx.DataBlock == idx.DataBlock)
	vf.Assert("C11.table.index-count", len(ridx.Entries) == len(idx.Entries))
	var mt Meta
	vf.Assert("C11.table.meta-ok", mt.Decode(tb[f.MetaBlock.Offset:f.MetaBlock.Offset+f.MetaBlock.Length]) == nil)
	vf.Assert("C11.table.meta-level", mt.Level == uint64(level))
	// all data blocks at once (what recover and compaction read)
	var all Data
	vf.Assert("C11.table.data-ok", all.Decode(tb[ridx.DataBlock.Offset:ridx.DataBlock.Offset+ridx.DataBlock.Length]) == nil)
	c11sameEntries("C11.table.all", all.Entries, es)
	// block by block (what a lookup reads)
	var cat []types.Entry
	if len(ridx.Entries) == len(idx.Entries) {
		for i, ie := range ridx.Entries {
			vf.Assert("C11.table.handle", ie.DataHandle == idx.Entries[i].DataHandle)
			var d Data
			vf.Assert("C11.table.block-ok", d.Decode(tb[ie.DataHandle.Offset:ie.DataHandle.Offset+ie.DataHandle.Length]) == nil)
			if len(d.Entries) > 0 {
				vf.Assert("C11.table.block-start", vf.StrEq(ie.StartKey, d.Entries[0].Key))
				vf.Assert("C11.table.block-end", vf.StrEq(ie.EndKey, d.Entries[len(d.Entries)-1].Key))
			}
			cat = append(cat, d.Entries...)
		}
		c11sameEntries("C11.table.blocks", cat, es)
	}
	// stability of the returned table bytes
	_, _ = Build([]types.Entry{{Key: string([]byte{vf.Byte("ok")}), Value: []byte{vf.Byte("ov")}}}, 4, 0)
	vf.Assert("C11.table.stable", vf.BytesEq(tb, snapshot))
	vf.Cover("C11.table.end")
}

// VH_C11_Long: length fields at their 16-bit boundary.  One entry whose key, value or
// shared prefix has length LEN (65535, 65536, 65537 ...); content is concrete except a few
// symbolic bytes.  WHICH: 0 = value, 1 = key suffix, 2 = shared prefix with the previous key.
func VH_C11_Long() {
	ln, which := vf.Param("LEN", 65536), vf.Param("WHICH", 0)
	long := make([]byte, ln)
	for i := range long {
		long[i] = byte('a' + i%23)
	}
	long[0], long[ln-1] = vf.Byte("first"), vf.Byte("last")
	var es []types.Entry
	switch which {
	case 0:
		es = []types.Entry{{Key: "k@1", Value: long, Version: 1}}
	case 1:
		es = []types.Entry{{Key: string(long) + "@1", Value: []byte{1}, Version: 1}}
	default:
		es = []types.Entry{{Key: string(long) + "@2", Value: []byte{1}, Version: 2}, {Key: string(long) + "@1", Value: []byte{2}, Version: 1}}
	}
	vf.Known("KF-C11-len16", ln > 65535)
	d := Data{Entries: es}
	enc, err := d.Encode()
	if err == nil {
		var back Data
		derr := back.Decode(append([]byte(nil), enc...))
		vf.Assert("C11.long.decode-ok", derr == nil)
		if derr == nil {
			c11sameEntries("C11.long", back.Entries, es)
		}
	}
	if which != 0 {
		idx := Index{Entries: []IndexEntry{{StartKey: es[0].Key, EndKey: es[len(es)-1].Key}}}
		ienc, ierr := idx.Encode()
		if ierr == nil {
			var ib Index
			derr := ib.Decode(append([]byte(nil), ienc...))
			vf.Assert("C11.long.index-decode-ok", derr == nil)
			if derr == nil && len(ib.Entries) == 1 {
				vf.Assert("C11.long.index-start", vf.StrEq(ib.Entries[0].StartKey, es[0].Key))
				vf.Assert("C11.long.index-end", vf.StrEq(ib.Entries[0].EndKey, es[len(es)-1].Key))
			} else if derr == nil {
				vf.Assert("C11.long.index-count", false)
			}
		}
	}
	vf.Cover("C11.long.end")
}

// VH_C11_Conc: two goroutines encode and decode at the same time (data blocks, and an index
// or meta block in between); every round trip is exact and the bytes an encoder returned
// stay intact while the other goroutine encodes.
func VH_C11_Conc() {
	da := Data{Entries: c11entries("a")}
	db := Data{Entries: c11entries("b")}
	var encB []byte
	var errB, decB error
	var backB Data
	done := make(chan struct{})
	go func() {
		encB, errB = db.Encode()
		if errB == nil {
			decB = backB.Decode(encB)
		}
		if vf.Param("MORE", 0) == 1 {
			m := Meta{CreatedUnix: 5, Level: 1}
			_, _ = m.Encode()
		}
		close(done)
	}()
	encA, errA := da.Encode()
	vf.Assert("C11.conc.encode-ok", errA == nil)
	snapshot := append([]byte(nil), encA...)
	idx := Index{DataBlock: BlockHandle{Offset: 1, Length: 2}, Entries: []IndexEntry{{StartKey: "x", EndKey: string([]byte{vf.Byte("oe")})}}}
	_, _ = idx.Encode()
	<-done
	vf.Assert("C11.conc.stable", vf.BytesEq(encA, snapshot))
	var backA Data
	vf.Assert("C11.conc.decode-ok", backA.Decode(encA) == nil)
	c11sameEntries("C11.conc.a", backA.Entries, da.Entries)
	vf.Assert("C11.conc.b-ok", errB == nil && decB == nil)
	c11sameEntries("C11.conc.b", backB.Entries, db.Entries)
	vf.Cover("C11.conc.end")
}
