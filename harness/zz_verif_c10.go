package originium

import (
	"fmt"

	vf "github.com/B1NARY-GR0UP/originium/internal/zzvf"
	"github.com/B1NARY-GR0UP/originium/pkg/logger"
	"github.com/B1NARY-GR0UP/originium/types"
)

type vlog struct{}

func (vlog) Debugf(string, ...any) {}
func (vlog) Infof(string, ...any)  {}
func (vlog) Warnf(string, ...any)  {}
func (vlog) Errorf(string, ...any) {}
func (vlog) Fatalf(string, ...any) {}
func (vlog) Panicf(f string, a ...any) { panic(fmt.Sprintf(f, a...)) }

type vmodel struct {
	val  map[string][]byte
	live map[string]bool
}

func (mo *vmodel) check(db *DB, tag string, keys []string) {
	_ = db.View(func(txn *Txn) error {
		for _, k := range keys {
			got, ok := txn.Get(k)
			vf.Assert(tag+".found."+k, ok == mo.live[k])
			if vf.And(ok, mo.live[k]) {
				vf.Assert(tag+".value."+k, vf.BytesEq(got, mo.val[k]))
			}
		}
		return nil
	})
}

// VH_SpikeDB: whole engine on the file-system model: commits, rotation, flush, reads,
// close, reopen, reads.
func VH_SpikeDB() {
	logger.SetLogger(vlog{})
	cfg := Config{SkipListMaxLevel: 2, SkipListP: 0.5, MemtableByteThreshold: 60, ImmutableBuffer: 1,
		DataBlockByteThreshold: 16, L0TargetNum: 1, LevelRatio: 2}
	dbdir := vf.Dir()
	db, err := Open(dbdir, cfg)
	vf.Assert("open", err == nil)
	keys := []string{"a", "b"}
	mo := &vmodel{val: map[string][]byte{}, live: map[string]bool{}}
	n := 4
	for i := 0; i < n; i++ {
		k := keys[i%2]
		v := []byte{vf.Byte(fmt.Sprintf("v%d", i))}
		del := i == 3
		err := db.Update(func(txn *Txn) error {
			if del {
				return txn.Delete(k)
			}
			return txn.Set(k, v)
		})
		vf.Assert("commit", err == nil)
		if del {
			mo.live[k] = false
		} else {
			mo.live[k] = true
			mo.val[k] = v
		}
		mo.check(db, fmt.Sprintf("after%d", i), keys)
	}
	vf.Drain()
	mo.check(db, "drained", keys)
	db.Close()
	vf.Cover("closed")
	db2, err := Open(dbdir, cfg)
	vf.Assert("reopen", err == nil)
	mo.check(db2, "reopened", keys)
	vf.Cover("end")
}

var spikeCfg = Config{SkipListMaxLevel: 2, SkipListP: 0.5, MemtableByteThreshold: 60, ImmutableBuffer: 1,
	DataBlockByteThreshold: 16, L0TargetNum: 1, LevelRatio: 2}

const spikeN = 6

// VH_SpikeCrash_P1: deterministic workload; txn i sets key[i%2] = [i+1].
func VH_SpikeCrash_P1() {
	logger.SetLogger(vlog{})
	db, err := Open(vf.Dir(), spikeCfg)
	vf.Assert("open", err == nil)
	keys := []string{"a", "b"}
	for i := 0; i < spikeN; i++ {
		vf.Record("inflight", i)
		err := db.Update(func(txn *Txn) error { return txn.Set(keys[i%2], []byte{byte(i + 1)}) })
		vf.Assert("commit", err == nil)
		vf.Record("acked", i)
	}
	vf.Drain()
	db.Close()
	vf.Record("closed", 1)
	vf.Cover("p1.end")
}

// VH_SpikeCrash_P2: recovery in a fresh process; acknowledged commits must be visible.
func VH_SpikeCrash_P2() {
	logger.SetLogger(vlog{})
	db, err := Open(vf.Dir(), spikeCfg)
	vf.Assert("reopen", err == nil)
	acked, inflight := vf.Recorded("acked"), vf.Recorded("inflight")
	keys := []string{"a", "b"}
	_ = db.View(func(txn *Txn) error {
		for ki, k := range keys {
			// latest acknowledged and (possibly) in-flight writer of this key
			want, alt := -1, -1
			for i := 0; i <= acked; i++ {
				if i%2 == ki {
					want = i
				}
			}
			if inflight > acked && inflight%2 == ki {
				alt = inflight
			}
			got, ok := txn.Get(k)
			okWant := (want < 0 && !ok) || (want >= 0 && ok && len(got) == 1 && int(got[0]) == want+1)
			okAlt := alt >= 0 && ok && len(got) == 1 && int(got[0]) == alt+1
			vf.Assert(fmt.Sprintf("recovered.%s", k), okWant || okAlt)
		}
		return nil
	})
	vf.Cover("p2.end")
}

// VH_SpikeRace: a writer goroutine rotates the memtable while the harness goroutine reads.
func VH_SpikeRace() {
	logger.SetLogger(vlog{})
	db, err := Open(vf.Dir(), spikeCfg)
	vf.Assert("open", err == nil)
	done := make(chan struct{})
	keys := []string{"a", "b"}
	go func() {
		for i := 0; i < 3; i++ {
			_ = db.Update(func(txn *Txn) error { return txn.Set(keys[i%2], []byte{byte(i + 1)}) })
		}
		close(done)
	}()
	_ = db.View(func(txn *Txn) error {
		txn.Get("a")
		txn.Get("b")
		return nil
	})
	<-done
	vf.Drain()
	db.Close()
	vf.Cover("end")
}

func vkey2(k, ts byte) string { return string([]byte{k}) + "@" + string([]byte{'0' + ts}) }

func vbefore(k1, t1, k2, t2 byte) bool { return vf.Or(k1 < k2, vf.And(k1 == k2, t1 > t2)) }

// VH_C10: T tables of E symbolic sorted entries through the real flushToL0, then the
// real searchLowerBound for a symbolic (key, ts); spec = newest version <= ts over all tables.
func VH_C10() {
	logger.SetLogger(vlog{})
	T := vf.Choose("T", 2, 2)
	E := vf.Choose("E", 2, 2)
	lm := &levelManager{dir: vf.Dir(), l0TargetNum: 4, ratio: 10, dataBlockSize: vf.Int("blk", 0, 64), logger: vlog{}}
	type ent struct{ k, ts, v byte; tomb bool }
	var all []ent
	for t := 0; t < T; t++ {
		var es []ent
		var kvs []types.Entry
		for i := 0; i < E; i++ {
			e := ent{vf.Byte(fmt.Sprintf("k%d_%d", t, i)), vf.Byte(fmt.Sprintf("t%d_%d", t, i)), vf.Byte(fmt.Sprintf("v%d_%d", t, i)), vf.Bool(fmt.Sprintf("d%d_%d", t, i))}
			vf.Assume(e.ts <= 9)
			vf.Assume(e.k != '@')
			if i > 0 {
				vf.Assume(vbefore(es[i-1].k, es[i-1].ts, e.k, e.ts))
			}
			for _, o := range all { // versions are unique per key across tables
				vf.Assume(vf.Not(vf.And(o.k == e.k, o.ts == e.ts)))
			}
			es = append(es, e)
			kvs = append(kvs, types.Entry{Key: vkey2(e.k, e.ts), Value: []byte{e.v}, Tombstone: e.tomb, Version: int64(e.ts)})
		}
		all = append(all, es...)
		err := lm.flushToL0(kvs)
		vf.Assert("flush", err == nil)
	}
	qk, qt := vf.Byte("qk"), vf.Byte("qt")
	vf.Assume(qt <= 9)
	vf.Assume(qk != '@')
	q := vkey2(qk, qt)
	got, ok := lm.searchLowerBound(q)
	found := vf.And(ok, ok) // placeholder to keep ok symbolic-friendly
	same := false
	if ok {
		same = types.IsSameKey(q, got.Key)
	}
	found = vf.And(ok, same)

	// spec on components
	specFound := false
	var specTs, specV byte
	var specTomb bool
	for _, e := range all {
		if vf.And(vf.And(e.k == qk, e.ts <= qt), vf.Or(vf.Not(specFound), e.ts > specTs)) {
			specFound, specTs, specV, specTomb = true, e.ts, e.v, e.tomb
		}
	}
	vf.Assert("found-iff", found == specFound)
	if vf.And(found, specFound) {
		vf.Assert("version", got.Version == int64(specTs))
		vf.Assert("value", got.Value[0] == specV)
		vf.Assert("tomb", got.Tombstone == specTomb)
	}
	vf.Cover("end")
}
