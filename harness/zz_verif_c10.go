package originium

import (
	"fmt"

	vf "github.com/B1NARY-GR0UP/originium/internal/zzvf"
	"github.com/B1NARY-GR0UP/originium/pkg/logger"
	"github.com/B1NARY-GR0UP/originium/types"
)

// VH_C10: T tables of E symbolic sorted entries go through the real flushToL0 (table.Build,
// encoders, file system), then the real searchLowerBound answers a symbolic (key, ts) query;
// the reference is the newest version <= ts over all tables, computed on components.
// Params: T, E (tables x entries), KL2 (number of leading entries with a 2-byte user key),
// QKL (query user-key length), MAXTS (timestamps 0..MAXTS), RECOVER (1: query handles
// rebuilt from the files by recover()).
func VH_C10() {
	logger.SetLogger(vlog{})
	T, E := vf.Param("T", 2), vf.Param("E", 2)
	kl2, qkl, maxTs := vf.Param("KL2", 0), vf.Param("QKL", 1), byte(vf.Param("MAXTS", 9))
	klmask := vf.Param("KLMASK", 0) // bit n set: the n-th entry (in flush order) has a 2-byte user key
	dir := vf.Dir()
	lm := &levelManager{dir: dir, l0TargetNum: 4, ratio: 10, dataBlockSize: vf.Int("blk", 0, 64), logger: vlog{}}
	var all []vent
	n := 0
	for t := 0; t < T; t++ {
		var es []vent
		var kvs []types.Entry
		for i := 0; i < E; i++ {
			kl := 1
			if n < kl2 || (klmask>>uint(n))&1 == 1 {
				kl = 2
			}
			n++
			e := vsymEnt(fmt.Sprintf("e%d_%d", t, i), kl, maxTs)
			if i > 0 {
				vf.Assume(vbefore(es[i-1], e)) // what memtable.all() delivers: sorted, distinct
			}
			for _, o := range all { // a (key, version) pair is written once
				vf.Assume(vf.Not(vf.And(vsameUser(o, e), o.ts == e.ts)))
			}
			es = append(es, e)
			kvs = append(kvs, e.entry())
		}
		all = append(all, es...)
		if levels := vf.Param("LEVELS", 1); levels > 1 {
			// arbitrary distribution over levels (newer versions may sit in deeper levels)
			vplaceTable(lm, vf.Choose("level", 0, levels-1), kvs)
			continue
		}
		err := lm.flushToL0(kvs)
		vf.Assert("flush", err == nil)
	}
	q := vent{k0: vf.Byte("q.k0"), kl: qkl, ts: vf.Byte("q.ts")}
	if qkl == 2 {
		q.k1 = vf.Byte("q.k1")
	}
	vf.Assume(q.ts <= maxTs)
	s := vlookupSpec(all, q)

	got, ok := lm.searchLowerBound(q.key())
	vcheckLookup("C10", ok, got, q, s)

	if vf.Param("RECOVER", 0) == 1 {
		lm2 := &levelManager{dir: dir, l0TargetNum: 4, ratio: 10, dataBlockSize: 16, logger: vlog{}}
		mv := lm2.recover()
		vf.ObsInt("C10.recover.maxversion", int(mv))
		got2, ok2 := lm2.searchLowerBound(q.key())
		vcheckLookup("C10.recovered", ok2, got2, q, s)
		vf.Cover("C10.recovered")
	}
	vf.Cover("C10.end")
}
