// Package nat calls the real third-party encoders natively on concrete bytes so that files
// written inside the engine are byte-identical to what the real build writes.
package nat

import (
	"bytes"
	"io"

	"github.com/klauspost/compress/s2"
)

// S2Encode is utils.Compress on concrete bytes: s2.NewWriter(dst); io.Copy; Close.
func S2Encode(raw []byte) []byte {
	var dst bytes.Buffer
	enc := s2.NewWriter(&dst)
	_, _ = io.Copy(enc, bytes.NewReader(raw))
	_ = enc.Close()
	return dst.Bytes()
}

// S2Decode is utils.Decompress on concrete bytes; err mirrors the reader's error.
func S2Decode(stream []byte) ([]byte, error) {
	dec := s2.NewReader(bytes.NewReader(stream))
	var out bytes.Buffer
	_, err := io.Copy(&out, dec)
	return out.Bytes(), err
}
