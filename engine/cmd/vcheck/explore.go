package main

import (
	"fmt"
	"path/filepath"
	"sort"
	"sync"
	"sync/atomic"
	"time"

	"golang.org/x/tools/go/ssa"

	"gosym/interp"
)

// Job is one harness run under one exploration configuration.
type Job struct {
	Name string
	Pkg  string // package directory relative to the module root ("" = root package)
	Fn   string
	Fn2  string // recovery phase (enables crash exploration)

	Inits         bool // run package initialisers of the interpreted packages
	Sched         bool // explore scheduler picks
	MaxDev        int  // preemption bound
	Eager         bool // eager background policy (otherwise lazy)
	Races         bool // happens-before race monitor
	MaxCrashes    int
	Tears         bool // torn unsynced tails at a crash (C14)
	FilterSummary bool // assume/guarantee summary of the bloom filter (guarantee = C16)
	Coins         bool // explore skiplist level coins
	ZoneOnly      bool // crash points / schedule exploration restricted to the harness's zone
	OnlyAsserts   []string
	IgnorePanics  bool
	SymIndex      bool // keep symbolic indices into scalar slices symbolic (bloom bitset)
	NoSummaries   bool
	PoolPreempt   bool // sync.Pool Get/Put are preemption points too (they carry happens-before edges)
	SameSecond    bool // every WAL name falls into the same second (nanosecond digits decide)

	MaxPaths  int           // 0 = unlimited
	Cap       time.Duration // wall-clock cap
	TimeoutMs int           // per-query solver timeout
	Samples   int           // cover witnesses validated natively
	Replay    string        // "seq" (default) | "none"
	Params    map[string]int // constants read by the harness through vf.Param
	Bounds    map[string]any
	Outside   []string
	Assumes   []string
}

type jobResult struct {
	Job         Job
	Paths       int
	Completed   int
	Steps       int
	Forks       int
	Obligs      int
	Discharged  int
	Undecided   int
	Unwind      int
	Infeasible  int
	PreHits     int
	Queries     int
	NSat        int
	NUnsat      int
	NUnk        int
	SolverTime  time.Duration
	Wall        time.Duration
	Complete    bool
	Covers      map[string]int
	Funcs       map[string]bool
	Intrinsics  map[string]bool
	Violations  []interp.Violation
	ViolCounts  map[string]int
	Samples     []interp.Violation
	CrashPoints int
	Deadlocks   int
	SmtLogs     []string
	EngineErrors     []string
	EngineErrorPaths int
}

func (r *propRun) explore(j Job) *jobResult {
	fn := r.ld.fn(j.Pkg, j.Fn)
	if fn == nil {
		fmt.Printf("job %s: harness %s not found in package %q\n", j.Name, j.Fn, j.Pkg)
		return nil
	}
	phases := []*ssa.Function{fn}
	if j.Fn2 != "" {
		fn2 := r.ld.fn(j.Pkg, j.Fn2)
		if fn2 == nil {
			fmt.Printf("job %s: harness %s not found\n", j.Name, j.Fn2)
			return nil
		}
		for i := 0; i <= j.MaxCrashes; i++ {
			phases = append(phases, fn2)
		}
	}
	if j.TimeoutMs == 0 {
		j.TimeoutMs = 10000
		if r.tier == "thorough" {
			j.TimeoutMs = 60000
		}
	}
	if j.Cap == 0 {
		j.Cap = 150 * time.Second
		if r.tier == "thorough" {
			j.Cap = 600 * time.Second
		}
	}

	var mu sync.Mutex
	cond := sync.NewCond(&mu)
	work := [][]interp.Decision{nil}
	active := 0
	done := false
	capped := false
	total := 0
	var machines []*interp.Machine
	var wg sync.WaitGroup
	t1 := time.Now()
	deadline := t1.Add(j.Cap)
	var abort int32
	stopTimer := time.AfterFunc(j.Cap+20*time.Second, func() {
		atomic.StoreInt32(&abort, 1)
		mu.Lock()
		done, capped = true, true
		cond.Broadcast()
		mu.Unlock()
	})
	defer stopTimer.Stop()
	res := &jobResult{Job: j, Covers: map[string]int{}, Funcs: map[string]bool{}, Intrinsics: map[string]bool{}, ViolCounts: map[string]int{}}
	nw := r.workers
	perWorkerSamples := 0
	if j.Samples > 0 {
		perWorkerSamples = (j.Samples + nw - 1) / nw
	}
	for w := 0; w < nw; w++ {
		var local [][]interp.Decision
		smtlog := ""
		if r.crossCheck && w < 2 {
			smtlog = filepath.Join(r.work, fmt.Sprintf("%s-w%d.smt2", j.Name, w))
			res.SmtLogs = append(res.SmtLogs, smtlog)
		}
		m, err := interp.NewMachine(r.ld.prog, &local, j.TimeoutMs, smtlog)
		if err != nil {
			panic(err)
		}
		m.WithInits = j.Inits
		m.SameSecond = j.SameSecond
		m.PoolPreempt = j.PoolPreempt
		m.ExploreSched = j.Sched
		m.MaxDev = j.MaxDev
		m.Eager = j.Eager
		m.DetectRaces = j.Races
		m.FilterSummary = j.FilterSummary
		m.ExploreCoins = j.Coins
		m.ExploreCrash = j.Fn2 != ""
		m.MaxCrashes = j.MaxCrashes
		m.ExploreTears = j.Tears
		m.Abort = &abort
		m.ZoneOnly = j.ZoneOnly
		m.OnlyAsserts = j.OnlyAsserts
		m.IgnorePanics = j.IgnorePanics
		m.SymIndex = j.SymIndex
		m.NoSummaries = j.NoSummaries
		m.Seed = r.seed
		m.Params = j.Params
		m.MaxSamples = perWorkerSamples
		if perWorkerSamples > 0 {
			m.SampleEvery = 1 + int((r.seed%3+3)%3)
		}
		machines = append(machines, m)
		wg.Add(1)
		go func(w int) {
			defer wg.Done()
			for {
				mu.Lock()
				for len(work) == 0 && active > 0 && !done {
					cond.Wait()
				}
				if done || (len(work) == 0 && active == 0) {
					done = true
					cond.Broadcast()
					mu.Unlock()
					return
				}
				p := work[len(work)-1]
				work = work[:len(work)-1]
				active++
				total++
				if (j.MaxPaths > 0 && total >= j.MaxPaths) || time.Now().After(deadline) {
					done = true
					capped = true
				}
				mu.Unlock()

				func() {
					// an interpreter limitation hit by this path must not take the whole check down
					defer func() {
						if x := recover(); x != nil {
							mu.Lock()
							if len(res.EngineErrors) < 5 {
								res.EngineErrors = append(res.EngineErrors, fmt.Sprintf("%v", x))
							}
							res.EngineErrorPaths++
							mu.Unlock()
							m.ResetAfterEngineError()
						}
					}()
					m.Run(phases, p)
				}()

				mu.Lock()
				work = append(work, local...)
				local = local[:0]
				active--
				cond.Broadcast()
				mu.Unlock()
			}
		}(w)
	}
	wg.Wait()
	res.Wall = time.Since(t1)
	mu.Lock()
	res.Complete = !(capped && (len(work) > 0)) && atomic.LoadInt32(&abort) == 0
	mu.Unlock()
	for _, m := range machines {
		res.Paths += m.Paths
		res.Completed += m.Completed
		res.Steps += m.Steps
		res.Forks += m.Forks
		res.Obligs += m.Obligs
		res.Discharged += m.Discharged
		res.Undecided += m.Undecided
		res.Unwind += m.UnwindExceeded
		res.Infeasible += m.Infeasible
		res.PreHits += m.PreHits
		res.CrashPoints += m.CrashPoints
		s := m.Solver()
		res.Queries += s.Queries
		res.NSat += s.NSat
		res.NUnsat += s.NUnsat
		res.NUnk += s.NUnk
		res.SolverTime += s.Time
		for k, v := range m.Covers {
			res.Covers[k] += v
		}
		for k := range m.Funcs {
			res.Funcs[k] = true
		}
		for k := range m.Intrinsics {
			res.Intrinsics[k] = true
		}
		for k, v := range m.ViolCounts() {
			res.ViolCounts[k] += v
		}
		res.Violations = append(res.Violations, m.Violations...)
		res.Samples = append(res.Samples, m.Samples...)
		s.Close()
	}
	sort.SliceStable(res.Violations, func(a, b int) bool {
		return res.Violations[a].Kind+res.Violations[a].ID < res.Violations[b].Kind+res.Violations[b].ID
	})
	if len(res.Samples) > j.Samples {
		res.Samples = res.Samples[:j.Samples]
	}
	return res
}
