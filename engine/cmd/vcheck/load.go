package main

import (
	"fmt"
	"os"
	"path/filepath"
	"sort"
	"strings"

	"golang.org/x/tools/go/packages"
	"golang.org/x/tools/go/ssa"
	"golang.org/x/tools/go/ssa/ssautil"
)

type loaded struct {
	prog    *ssa.Program
	overlay map[string]string // virtual path in /repo -> real file under /verif
	// harness functions (VH_*) per package import path
	harness map[string][]string
	pkgName map[string]string
}

// harnessOverlay maps /verif/harness/<rel> to /repo/<rel> and /verif/vf/vf.go to
// /repo/internal/zzvf/vf.go.  /repo itself is never written.
func harnessOverlay() map[string]string {
	ov := map[string]string{
		filepath.Join(repoDir, "internal/zzvf/vf.go"):     filepath.Join(verifDir, "vf/vf.go"),
		filepath.Join(repoDir, "internal/zzgate/gate.go"): filepath.Join(verifDir, "vf/zzgate/gate.go"),
	}
	root := filepath.Join(verifDir, "harness")
	filepath.Walk(root, func(p string, info os.FileInfo, err error) error {
		if err != nil || info.IsDir() || !strings.HasSuffix(p, ".go") {
			return nil
		}
		rel, _ := filepath.Rel(root, p)
		ov[filepath.Join(repoDir, rel)] = p
		return nil
	})
	return ov
}

const toolchainBin = "/root/go/pkg/mod/golang.org/toolchain@v0.0.1-go1.24.0.linux-amd64/bin"

func init() {
	// make sure the go1.24 toolchain is the `go` found by go/packages (exec.LookPath)
	os.Setenv("PATH", toolchainBin+":"+os.Getenv("PATH"))
	os.Setenv("GOFLAGS", "-mod=mod")
	os.Setenv("GOPROXY", "off")
	os.Setenv("GOSUMDB", "off")
	os.Setenv("GOTOOLCHAIN", "local")
}

func goEnv() []string {
	return append(os.Environ(), "CGO_ENABLED=0")
}

func loadProgram() (*loaded, error) {
	ov := harnessOverlay()
	overlay := map[string][]byte{}
	for v, r := range ov {
		b, err := os.ReadFile(r)
		if err != nil {
			return nil, err
		}
		overlay[v] = b
	}
	cfg := &packages.Config{Mode: packages.LoadAllSyntax, Dir: repoDir, Env: goEnv(), Overlay: overlay}
	pkgs, err := packages.Load(cfg, "./...")
	if err != nil {
		return nil, err
	}
	var errs []string
	packages.Visit(pkgs, nil, func(p *packages.Package) {
		for _, e := range p.Errors {
			errs = append(errs, e.Error())
		}
	})
	if len(errs) > 0 {
		if len(errs) > 10 {
			errs = errs[:10]
		}
		return nil, fmt.Errorf("%s", strings.Join(errs, "\n"))
	}
	prog, _ := ssautil.AllPackages(pkgs, ssa.InstantiateGenerics)
	prog.Build()
	ld := &loaded{prog: prog, overlay: ov, harness: map[string][]string{}, pkgName: map[string]string{}}
	for _, p := range prog.AllPackages() {
		path := p.Pkg.Path()
		if !strings.HasPrefix(path, modPath) {
			continue
		}
		ld.pkgName[path] = p.Pkg.Name()
		for name, mem := range p.Members {
			if _, ok := mem.(*ssa.Function); ok && strings.HasPrefix(name, "VH_") {
				ld.harness[path] = append(ld.harness[path], name)
			}
		}
		sort.Strings(ld.harness[path])
	}
	return ld, nil
}

func (ld *loaded) fn(pkgRel, name string) *ssa.Function {
	path := modPath
	if pkgRel != "" {
		path += "/" + pkgRel
	}
	for _, p := range ld.prog.AllPackages() {
		if p.Pkg.Path() == path {
			return p.Func(name)
		}
	}
	return nil
}
