package main

import (
	"encoding/json"
	"fmt"
	"os"
	"path/filepath"
	"sort"
	"strings"
	"time"

	"gosym/interp"
)

type propRun struct {
	prop, tier string
	seed       int64
	work       string
	ld         *loaded
	noReplay   bool
	verbose    bool
	workers    int
	crossCheck bool

	results      []*jobResult
	confirmed    []savedReplay // new violations reproduced natively
	knownHit     map[string]string
	unconfirmed  []string
	validated    int
	unvalidated  int
	mismatches   []string
	infra        []string
	solverDiffs  []string
	crossQueries int
}

type knownFinding struct {
	Property    string `json:"property"`
	ID          string `json:"id"`
	Description string `json:"description"`
}

type knownFile struct {
	Known []knownFinding `json:"known"`
	Fixed []string       `json:"fixed"`
}

func loadKnown() knownFile {
	var kf knownFile
	b, err := os.ReadFile(filepath.Join(verifDir, "known_findings.json"))
	if err == nil {
		_ = json.Unmarshal(b, &kf)
	}
	return kf
}

// confirmNative replays one engine counterexample against the real build.
func (r *propRun) confirmNative(j Job, v interp.Violation) (bool, *nativeResult, string) {
	switch j.Replay {
	case "none":
		return false, nil, "job has no native replay mode"
	case "gated":
		return r.confirmGated(j, v)
	}
	if len(v.W.CrashOps) > 0 || j.Fn2 != "" {
		return r.confirmCrash(j, v)
	}
	c := caseOf("v", j, v)
	c.Obs = nil
	res, out, err := r.nativeReplay(j, []nativeCase{c}, nil, nil, false)
	if err != nil {
		return false, nil, out
	}
	nr, ok := res["v"]
	if !ok {
		return false, nil, out
	}
	return confirms(v, nr), &nr, out
}

func (r *propRun) runJob(j Job) {
	if os.Getenv("VCHECK_FORCEGATED") != "" && j.Fn2 == "" {
		j.Replay = "gated" // debugging aid: confirm everything under the gates
	}
	fmt.Printf("== job %s: %s.%s", j.Name, j.Pkg, j.Fn)
	if j.Fn2 != "" {
		fmt.Printf(" + recovery %s (crashes<=%d tears=%v)", j.Fn2, j.MaxCrashes, j.Tears)
	}
	if j.Sched {
		fmt.Printf(" sched(preempt<=%d)", j.MaxDev)
	}
	fmt.Println()
	res := r.explore(j)
	if res == nil {
		r.infra = append(r.infra, "job "+j.Name+": harness not found")
		return
	}
	r.results = append(r.results, res)
	if res.EngineErrorPaths > 0 {
		r.infra = append(r.infra, fmt.Sprintf("job %s: %d paths hit an interpreter limitation: %s", j.Name, res.EngineErrorPaths, strings.Join(res.EngineErrors, " | ")))
	}
	fmt.Printf("   paths=%d completed=%d infeasible=%d unwind_exceeded=%d steps=%d obligations=%d discharged=%d undecided=%d\n", res.Paths, res.Completed, res.Infeasible, res.Unwind, res.Steps, res.Obligs, res.Discharged, res.Undecided)
	fmt.Printf("   queries=%d (sat %d, unsat %d, unknown %d) presolved=%d solver=%.1fs wall=%.1fs complete=%v covers=%v\n", res.Queries, res.NSat, res.NUnsat, res.NUnk, res.PreHits, res.SolverTime.Seconds(), res.Wall.Seconds(), res.Complete, res.Covers)
	if len(res.ViolCounts) > 0 {
		keys := make([]string, 0, len(res.ViolCounts))
		for k := range res.ViolCounts {
			keys = append(keys, k)
		}
		sort.Strings(keys)
		for _, k := range keys {
			fmt.Printf("   counterexample class %s: %d paths\n", k, res.ViolCounts[k])
		}
	}
	if r.noReplay {
		for _, v := range res.Violations {
			b, _ := json.Marshal(v.W)
			fmt.Printf("   (unreplayed) %s %s known=%q %s %s\n", v.Kind, v.ID, v.Known, v.Msg, b)
		}
		return
	}
	known := loadKnown()
	listed := map[string]knownFinding{}
	for _, k := range known.Known {
		if k.Property == r.prop {
			listed[k.ID] = k
		}
	}
	// 1. confirm counterexamples natively (at most 3 witnesses per class; sequential
	// witnesses of all classes share one native build)
	doneClass := map[string]bool{}
	tried := map[string]int{}
	type cand struct {
		v  interp.Violation
		id string
	}
	var batch []cand
	var single []interp.Violation
	for _, v := range res.Violations {
		class := v.Kind + "|" + v.ID + "|" + v.Known
		if tried[class] >= 3 {
			continue
		}
		tried[class]++
		if r.verbose {
			b, _ := json.Marshal(v.W)
			fmt.Printf("   counterexample %s %s known=%q %s\n      %s\n", v.Kind, v.ID, v.Known, v.Msg, b)
		}
		if j.Replay == "" {
			batch = append(batch, cand{v, fmt.Sprintf("v%d", len(batch))})
		} else {
			single = append(single, v)
		}
	}
	accept := func(v interp.Violation, nr *nativeResult) {
		class := v.Kind + "|" + v.ID + "|" + v.Known
		if doneClass[class] {
			return
		}
		doneClass[class] = true
		if v.Known != "" {
			if _, isListed := listed[v.Known]; isListed {
				if r.knownHit == nil {
					r.knownHit = map[string]string{}
				}
				r.knownHit[v.Known] = listed[v.Known].Description
				return
			}
		}
		sr := savedReplay{Property: r.prop, Tier: r.tier, Job: j, Kind: v.Kind, ID: v.ID, Msg: v.Msg, Witness: v.W, Native: nr, Decision: v.Decisions,
			How: fmt.Sprintf("/verif/bin/vcheck -replay <this file>   (re-runs %s natively on the witness via go test -overlay)", j.Fn)}
		r.confirmed = append(r.confirmed, sr)
	}
	if len(batch) > 0 {
		var cases []nativeCase
		for _, c := range batch {
			nc, ok := r.crashCase(c.id, j, c.v) // phase 0: plain case; later phases: crash image
			if !ok {
				continue
			}
			nc.Obs = nil
			cases = append(cases, nc)
		}
		nres, out, err := r.nativeReplay(j, cases, nil, nil, false)
		if err != nil {
			r.infra = append(r.infra, fmt.Sprintf("job %s: counterexample replay failed: %v\n%s", j.Name, err, tail(out, 30)))
		}
		for _, c := range batch {
			if nr, ok := nres[c.id]; ok && confirms(c.v, nr) {
				nrc := nr
				accept(c.v, &nrc)
			} else if r.verbose {
				b, _ := json.Marshal(nr)
				fmt.Printf("   not reproduced natively: %s %s -> %s\n", c.v.Kind, c.v.ID, b)
			}
		}
	}
	// schedule-dependent counterexamples of sequentially replayed jobs: the free-running native
	// run may not hit the schedule the engine found; replay the engine's schedule under the gates
	if j.Replay == "" && j.Fn2 == "" {
		gatedTried := map[string]int{}
		gatedTotal := 0
		for _, c := range batch {
			class := c.v.Kind + "|" + c.v.ID + "|" + c.v.Known
			if doneClass[class] || gatedTried[class] >= 2 || len(c.v.W.Trace) == 0 || (c.v.Kind != "assert" && c.v.Kind != "panic") {
				continue
			}
			gatedTried[class]++
			gatedTotal++
			if gatedTotal > 8 {
				break // bounded cost; one confirmed class is enough for the verdict
			}
			if ok, nr, _ := r.confirmGated(j, c.v); ok {
				accept(c.v, nr)
				break
			}
		}
	}
	for _, v := range single {
		class := v.Kind + "|" + v.ID + "|" + v.Known
		if doneClass[class] {
			continue
		}
		ok, nr, out := r.confirmNative(j, v)
		if !ok {
			if r.verbose {
				fmt.Printf("      native replay output:\n%s\n", tail(out, 40))
			}
			continue
		}
		accept(v, nr)
	}
	for _, v := range res.Violations {
		class := v.Kind + "|" + v.ID + "|" + v.Known
		if !doneClass[class] {
			doneClass[class] = true
			r.unconfirmed = append(r.unconfirmed, fmt.Sprintf("%s: %s %s %s", j.Name, v.Kind, v.ID, v.Msg))
		}
	}
	// 2. translator validation: cover witnesses replayed natively, observables compared
	if len(res.Samples) > 0 && j.Replay == "gated" {
		okN := 0
		for i, s := range res.Samples {
			if i >= 3 {
				break
			}
			good, nr, out := r.confirmGated(j, s)
			diverged := strings.Contains(out, "gate: DIVERGED")
			if !good && (diverged || nr == nil) && !strings.Contains(out, "panic:") {
				// the replay lost the schedule (machine load) or was killed: retry once
				good, nr, out = r.confirmGated(j, s)
				diverged = strings.Contains(out, "gate: DIVERGED")
			}
			switch {
			case good:
				okN++
				r.validated++
			case nr != nil && !diverged && (len(nr.Failed) > 0 || nr.Panic != "" || len(nr.Mismatch) > 0 || nr.Assume):
				// the native run followed the engine's schedule and disagrees with it
				r.mismatches = append(r.mismatches, fmt.Sprintf("%s/s%d: gated replay of a cover witness: consumed %d/%d events, failed=%v panic=%q mismatch=%v", j.Name, i, nr.GatePos, nr.GateLen, nr.Failed, nr.Panic, nr.Mismatch))
			case nr == nil && strings.Contains(out, "panic:"):
				r.mismatches = append(r.mismatches, fmt.Sprintf("%s/s%d: gated replay of a cover witness panicked natively:\n%s", j.Name, i, tail(out, 15)))
			default:
				// schedule not reproduced (replay infrastructure limit): not counted as validated
				r.unvalidated++
			}
		}
		fmt.Printf("   cover witnesses validated natively under the engine's schedule (gated replay): %d\n", okN)
	}
	if len(res.Samples) > 0 && j.Replay != "none" && j.Replay != "gated" {
		var cases []nativeCase
		for i, s := range res.Samples {
			if j.Fn2 != "" {
				// crash job: the final (recovery) phase runs natively on the engine's crash image
				if c, ok := r.crashCase(fmt.Sprintf("s%d", i), j, s); ok && s.Phase >= 1 {
					cases = append(cases, c)
				}
				continue
			}
			cases = append(cases, caseOf(fmt.Sprintf("s%d", i), j, s))
		}
		nres, out, err := r.nativeReplay(j, cases, nil, nil, false)
		if err != nil {
			r.infra = append(r.infra, fmt.Sprintf("job %s: sample replay failed: %v\n%s", j.Name, err, tail(out, 30)))
		}
		before := r.validated
		for _, c := range cases {
			nr, ok := nres[c.ID]
			if !ok {
				continue
			}
			if nr.Assume {
				r.mismatches = append(r.mismatches, fmt.Sprintf("%s/%s: witness violates a harness assumption natively", j.Name, c.ID))
				continue
			}
			if len(nr.Mismatch) > 0 {
				r.mismatches = append(r.mismatches, fmt.Sprintf("%s/%s: %s", j.Name, c.ID, strings.Join(nr.Mismatch, "; ")))
				continue
			}
			if nr.Panic != "" || len(nr.Failed) > 0 {
				// the engine held on this path but the native run fails: engine/impl divergence
				r.mismatches = append(r.mismatches, fmt.Sprintf("%s/%s: native run failed (%v %s) where the engine proved the path", j.Name, c.ID, nr.Failed, nr.Panic))
				continue
			}
			r.validated++
		}
		fmt.Printf("   cover witnesses validated natively: %d/%d\n", r.validated-before, len(cases))
	}
	// 3. solver cross-check of logged sessions
	if r.crossCheck {
		r.crossCheckLogs(res.SmtLogs)
	}
}

func tail(s string, n int) string {
	lines := strings.Split(s, "\n")
	if len(lines) > n {
		lines = lines[len(lines)-n:]
	}
	return strings.Join(lines, "\n")
}

func (r *propRun) finish(wall time.Duration) int {
	os.MkdirAll(filepath.Join(outDir, "evidence"), 0755)
	os.MkdirAll(filepath.Join(outDir, "replays"), 0755)
	code := 0
	for id, desc := range r.knownHit {
		fmt.Printf("KNOWN-FINDING: property=%s %s: %s\n", r.prop, id, desc)
	}
	for i, sr := range r.confirmed {
		p := filepath.Join(outDir, "replays", fmt.Sprintf("%s-%d.json", r.prop, i))
		b, _ := json.MarshalIndent(sr, "", " ")
		os.WriteFile(p, b, 0644)
		fmt.Printf("VIOLATION property=%s replay=%s\n", r.prop, p)
		fmt.Printf("   %s %s %s (job %s)\n", sr.Kind, sr.ID, sr.Msg, sr.Job.Name)
		code = 1
	}
	for _, u := range r.unconfirmed {
		fmt.Printf("unconfirmed counterexample (not reported as a violation): %s\n", u)
	}
	for _, m := range r.mismatches {
		fmt.Printf("ENGINE/NATIVE MISMATCH: %s\n", m)
	}
	for _, m := range r.infra {
		fmt.Printf("INFRASTRUCTURE: %s\n", m)
	}
	for _, m := range r.solverDiffs {
		fmt.Printf("SOLVER DISAGREEMENT: %s\n", m)
	}
	r.writeEvidence(wall)
	if code == 0 && (len(r.mismatches) > 0 || len(r.infra) > 0 || len(r.solverDiffs) > 0) {
		code = 2
	}
	if code == 0 {
		fmt.Printf("OK property=%s tier=%s held on everything explored (%.1fs)\n", r.prop, r.tier, wall.Seconds())
	}
	return code
}
