package main

import (
	"bufio"
	"encoding/json"
	"fmt"
	"os"
	"os/exec"
	"path/filepath"
	"sort"
	"strings"
	"time"
)

func writeInfraEvidence(prop, tier string, seed int64, wall time.Duration, msg string) {
	os.MkdirAll(filepath.Join(outDir, "evidence"), 0755)
	ev := map[string]any{
		"property_id": prop, "tier": tier, "seed": seed, "level": "other",
		"coverage": map[string]any{"explanation": "the check could not run: " + msg, "evaluations": 0, "distinct_nontrivial": 0},
		"wall_s":   wall.Seconds(),
	}
	b, _ := json.MarshalIndent(ev, "", " ")
	os.WriteFile(filepath.Join(outDir, "evidence", prop+".json"), b, 0644)
}

func (r *propRun) writeEvidence(wall time.Duration) {
	states, transitions, oblig, disch, undec, unwind := 0, 0, 0, 0, 0, 0
	q, nsat, nunsat, nunk := 0, 0, 0, 0
	var stime time.Duration
	funcs := map[string]bool{}
	intr := map[string]bool{}
	complete := true
	var jobs []map[string]any
	var samples []any
	assumes := map[string]bool{}
	outside := map[string]bool{}
	crashPoints := 0
	steps := 0
	completed := 0
	for _, res := range r.results {
		completed += res.Completed
		states += res.Paths
		transitions += res.Forks + res.PreHits + res.Queries
		oblig += res.Obligs
		disch += res.Discharged
		undec += res.Undecided
		unwind += res.Unwind
		q += res.Queries
		nsat += res.NSat
		nunsat += res.NUnsat
		nunk += res.NUnk
		stime += res.SolverTime
		steps += res.Steps
		crashPoints += res.CrashPoints
		if !res.Complete {
			complete = false
		}
		for k := range res.Funcs {
			funcs[k] = true
		}
		for k := range res.Intrinsics {
			intr[k] = true
		}
		for _, a := range res.Job.Assumes {
			assumes[a] = true
		}
		for _, a := range res.Job.Outside {
			outside[a] = true
		}
		jobs = append(jobs, map[string]any{
			"job": res.Job.Name, "harness": res.Job.Pkg + "." + res.Job.Fn, "recovery_harness": res.Job.Fn2,
			"paths": res.Paths, "completed_paths": res.Completed, "infeasible_or_assume_pruned": res.Infeasible,
			"unwind_exceeded": res.Unwind, "ssa_steps": res.Steps, "obligations": res.Obligs, "discharged": res.Discharged,
			"undecided": res.Undecided, "queries": res.Queries, "presolved_branches": res.PreHits, "wall_s": res.Wall.Seconds(),
			"exploration_complete": res.Complete, "covers": res.Covers, "bounds": res.Job.Bounds,
			"schedule_exploration": res.Job.Sched, "preemption_bound": res.Job.MaxDev, "eager_policy": res.Job.Eager,
			"race_monitor": res.Job.Races, "crash_points_offered": res.CrashPoints, "max_crashes": res.Job.MaxCrashes, "torn_tails": res.Job.Tears,
			"counterexample_classes": res.ViolCounts,
		})
		for i, s := range res.Samples {
			if i >= 2 {
				break
			}
			samples = append(samples, map[string]any{"job": res.Job.Name, "harness": res.Job.Fn, "kind": "cover witness (solver model of a completed path)", "inputs": s.W.Inputs, "chooses": s.W.Chooses, "observables": s.W.Obs})
		}
		if len(res.Samples) == 0 {
			samples = append(samples, map[string]any{"job": res.Job.Name, "harness": res.Job.Fn, "kind": "path classes explored", "paths": res.Paths, "covers": res.Covers})
		}
	}
	var fl, il []string
	for k := range funcs {
		if !strings.Contains(k, ".VH_") && !strings.Contains(k, "$") {
			fl = append(fl, k)
		}
	}
	for k := range intr {
		if !strings.Contains(k, "/internal/zzvf.") {
			il = append(il, k)
		}
	}
	sort.Strings(fl)
	sort.Strings(il)
	var al, ol []string
	for k := range assumes {
		al = append(al, k)
	}
	for k := range outside {
		ol = append(ol, k)
	}
	sort.Strings(al)
	sort.Strings(ol)
	al = append(al, "z3 4.8.12 answers are trusted (thorough tier cross-checks logged sessions on z3 5.1.0 and cvc5 1.0)", "the symbolic interpreter's semantics of go/ssa and the boundary models listed under intrinsics_used (each validated against the native build on this run's cover witnesses)")
	if states == 0 {
		states = 1
	}
	if transitions == 0 {
		transitions = 1
	}
	if len(samples) == 0 {
		samples = append(samples, "no job produced a sample")
	}
	cov := map[string]any{
		"states":                        states,
		"transitions":                   transitions,
		"traces_validated_against_impl": r.validated,
		"samples":                       samples,
		"obligations":                   oblig,
		"discharged":                    disch,
		"undecided":                     undec,
		"unwinding_complete":            unwind == 0,
		"unwind_exceeded_paths":         unwind,
		"exploration_complete":          complete,
		"exhaustive":                    complete && unwind == 0 && undec == 0,
		"queries":                       map[string]int{"total": q, "sat": nsat, "unsat": nunsat, "unknown": nunk},
		"solver_time_s":                 stime.Seconds(),
		"ssa_steps":                     steps,
		"functions_encoded":             fl,
		"intrinsics_used":               il,
		"jobs":                          jobs,
		"outside_the_claim":             ol,
		"crash_points_offered":          crashPoints,
		"unconfirmed_counterexamples":   r.unconfirmed,
		"known_findings_hit":            r.knownHit,
		"engine_native_mismatches":      r.mismatches,
		"gated_replays_not_reproduced":  r.unvalidated,
		"solver_cross_check":            map[string]any{"queries_replayed": r.crossQueries, "disagreements": r.solverDiffs},
		"evaluations":                   states,
		"distinct_nontrivial":           completed,
		"rule":                          "one evaluation = one explored path class (distinct decision vector: branch outcomes, Choose values, scheduler/crash/coin picks); classes are distinct by construction; distinct_nontrivial counts those that satisfied every harness assumption and ran to the end of the harness (pruned/infeasible prefixes are excluded); inside a class all symbolic data values are decided by the solver",
		"explanation":                   "bounded symbolic execution of the real go/ssa of /repo (regenerated from the working tree on this run); unsat of pc && !assertion on every path = holds within the stated bounds",
	}
	ev := map[string]any{
		"property_id": r.prop, "tier": r.tier, "seed": r.seed, "level": "model_checking",
		"coverage": cov, "assumptions": al, "wall_s": wall.Seconds(), "violations": len(r.confirmed),
	}
	b, _ := json.MarshalIndent(ev, "", " ")
	os.WriteFile(filepath.Join(outDir, "evidence", r.prop+".json"), b, 0644)
}

// crossCheckLogs replays logged solver sessions on z3-new and cvc5 and compares the answer
// streams with z3 4.8.12's.  A disagreement is an infrastructure failure.
func (r *propRun) crossCheckLogs(logs []string) {
	for _, lg := range logs {
		st, err := os.Stat(lg)
		if err != nil || st.Size() == 0 || st.Size() > 64<<20 {
			continue
		}
		base := answers(exec.Command("z3", "-in", "-t:60000"), lg, "")
		if len(base) == 0 {
			continue
		}
		for _, alt := range [][]string{{"z3-new", "-in", "-t:60000"}, {"cvc5", "--incremental", "--tlimit-per=60000", "--lang=smt2"}} {
			if _, err := exec.LookPath(alt[0]); err != nil {
				continue
			}
			pre := ""
			if alt[0] == "cvc5" {
				pre = "(set-logic ALL)\n"
			}
			got := answers(exec.Command(alt[0], alt[1:]...), lg, pre)
			n := len(base)
			if len(got) < n {
				n = len(got)
			}
			for i := 0; i < n; i++ {
				if base[i] != got[i] && base[i] != "unknown" && got[i] != "unknown" {
					r.solverDiffs = append(r.solverDiffs, fmt.Sprintf("%s query %d: z3=%s %s=%s", filepath.Base(lg), i, base[i], alt[0], got[i]))
					break
				}
			}
			r.crossQueries += n
		}
	}
}

// crossCheckQueries: how many queries of each logged session are replayed on the other solvers.
const crossCheckQueries = 1500

func answers(cmd *exec.Cmd, log, prefix string) []string {
	f, err := os.Open(log)
	if err != nil {
		return nil
	}
	defer f.Close()
	in, _ := cmd.StdinPipe()
	out, _ := cmd.StdoutPipe()
	if err := cmd.Start(); err != nil {
		return nil
	}
	go func() {
		w := bufio.NewWriter(in)
		w.WriteString(prefix)
		sc := bufio.NewScanner(f)
		sc.Buffer(make([]byte, 1<<20), 1<<26)
		nq := 0
		for sc.Scan() {
			line := sc.Text()
			if strings.HasPrefix(line, "(get-value") {
				continue
			}
			if strings.HasPrefix(line, "(check-sat") {
				nq++
				if nq > crossCheckQueries {
					break // a prefix of the session is replayed (bounded cost)
				}
			}
			w.WriteString(line)
			w.WriteString("\n")
		}
		w.Flush()
		in.Close()
	}()
	var res []string
	sc := bufio.NewScanner(out)
	sc.Buffer(make([]byte, 1<<20), 1<<26)
	for sc.Scan() {
		l := strings.TrimSpace(sc.Text())
		if l == "sat" || l == "unsat" || l == "unknown" {
			res = append(res, l)
		}
	}
	cmd.Wait()
	return res
}
