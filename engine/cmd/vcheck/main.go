// vcheck decides one property of /repo by bounded symbolic execution of its go/ssa form.
//
//	vcheck -prop C10 -tier quick|thorough
//
// Exit 0: every explored path held (or only listed known findings failed);
// exit 1 + "VIOLATION property=<id> replay=<path>": a counterexample confirmed natively;
// exit 2: infrastructure failure (harness does not compile, solver disagreement,
// engine/native trace mismatch) - never accompanied by a VIOLATION line.
package main

import (
	"flag"
	"fmt"
	"os"
	"path/filepath"
	"strconv"
	"strings"
	"time"

	"gosym/interp"
)

const (
	verifDir = "/verif"
	modPath  = "github.com/B1NARY-GR0UP/originium"
)

// repoDir is /repo.  VCHECK_REPO points the tool at a scratch worktree instead; it exists
// only so that seeded changes can be evaluated without touching /repo (registered commands
// never set it).  Evidence and replay files then go to $VCHECK_OUT instead of /verif.
var repoDir = "/repo"
var outDir = verifDir

func init() {
	if d := os.Getenv("VCHECK_REPO"); d != "" {
		repoDir = d
		interp.RepoPrefix = d + "/"
		if o := os.Getenv("VCHECK_OUT"); o != "" {
			outDir = o
		} else {
			outDir = d + "/_vcheck"
		}
		os.MkdirAll(outDir, 0755)
	}
}

func main() {
	prop := flag.String("prop", "", "property id (C01..C17)")
	tier := flag.String("tier", "", "quick|thorough (default $VERIF_TIER or quick)")
	jobFilter := flag.String("job", "", "only jobs whose name contains this string")
	workers := flag.Int("j", 16, "workers")
	noReplay := flag.Bool("noreplay", false, "do not replay natively (debugging only; never registered)")
	allViol := flag.Bool("v", false, "print every violation witness")
	replayFile := flag.String("replay", "", "replay a saved counterexample file natively and print the result")
	crossCheck := flag.Bool("crosscheck", false, "replay logged solver sessions on z3-new and cvc5 and compare")
	flag.Parse()

	if *replayFile != "" {
		os.Exit(replaySaved(*replayFile))
	}
	if *tier == "" {
		*tier = os.Getenv("VERIF_TIER")
	}
	if *tier != "thorough" {
		*tier = "quick"
	}
	seed := int64(0)
	if s := os.Getenv("VERIF_SEED"); s != "" {
		seed, _ = strconv.ParseInt(s, 10, 64)
	}
	jobs := jobsFor(*prop, *tier)
	if len(jobs) == 0 {
		fmt.Fprintf(os.Stderr, "vcheck: no jobs for property %q\n", *prop)
		os.Exit(2)
	}
	t0 := time.Now()
	work := filepath.Join(outDir, ".work", fmt.Sprintf("%s-%s-%d", *prop, *tier, os.Getpid()))
	os.MkdirAll(work, 0755)

	ld, err := loadProgram()
	if err != nil {
		fmt.Fprintf(os.Stderr, "vcheck: cannot load /repo with the harness overlay: %v\n", err)
		writeInfraEvidence(*prop, *tier, seed, time.Since(t0), "load failed: "+err.Error())
		os.Exit(2)
	}
	fmt.Printf("loaded /repo + harness overlay in %.1fs\n", time.Since(t0).Seconds())

	run := &propRun{prop: *prop, tier: *tier, seed: seed, work: work, ld: ld, noReplay: *noReplay, verbose: *allViol, workers: *workers, crossCheck: *crossCheck || *tier == "thorough"}
	for _, j := range jobs {
		if *jobFilter != "" && !(j.Name == *jobFilter || (strings.HasSuffix(*jobFilter, "*") && strings.HasPrefix(j.Name, strings.TrimSuffix(*jobFilter, "*")))) {
			continue
		}
		run.runJob(j)
		if len(run.confirmed) > 0 && os.Getenv("VCHECK_ALLJOBS") == "" {
			// a confirmed violation decides the verdict; the remaining jobs would only add time
			fmt.Printf("(remaining jobs skipped after a confirmed violation)\n")
			break
		}
	}
	code := run.finish(time.Since(t0))
	if os.Getenv("VCHECK_KEEP") == "" {
		os.RemoveAll(work)
	}
	os.Exit(code)
}
