package main

import (
	"bytes"
	"encoding/json"
	"fmt"
	"os"
	"os/exec"
	"path/filepath"
	"strings"
	"time"

	"gosym/interp"
)

// nativeCase mirrors zzvf.Case.
type nativeCase struct {
	ID      string            `json:"id"`
	Fn      string            `json:"fn"`
	Fn2     string            `json:"fn2,omitempty"`
	Inputs  map[string]uint64 `json:"inputs"`
	Chooses []int             `json:"chooses"`
	Coins   []int             `json:"coins,omitempty"`
	Expect  string            `json:"expect,omitempty"`
	Obs     map[string]string `json:"obs,omitempty"`
	Records map[string]int64  `json:"records,omitempty"`
	Params  map[string]int    `json:"params,omitempty"`
	Dir     string            `json:"dir,omitempty"`
	Phase   int               `json:"phase,omitempty"`
	WalClock [][2]int64       `json:"wal_clock,omitempty"`
}

type nativeResult struct {
	ID       string            `json:"id"`
	Failed   []string          `json:"failed"`
	Known    []string          `json:"known"`
	Panic    string            `json:"panic,omitempty"`
	Assume   bool              `json:"assume_violated,omitempty"`
	Obs      map[string]string `json:"obs,omitempty"`
	Covers   []string          `json:"covers,omitempty"`
	Mismatch []string          `json:"mismatch,omitempty"`
	GatePos  int               `json:"gate_pos,omitempty"`
	GateLen  int               `json:"gate_len,omitempty"`
}

func caseOf(id string, j Job, v interp.Violation) nativeCase {
	c := nativeCase{ID: id, Fn: j.Fn, Fn2: j.Fn2, Inputs: v.W.Inputs, Chooses: v.W.Chooses, Coins: v.W.Coins, Obs: v.W.Obs, Records: v.W.Records, Params: j.Params, WalClock: v.W.WalClock}
	if c.Inputs == nil {
		c.Inputs = map[string]uint64{}
	}
	if c.Chooses == nil {
		c.Chooses = []int{}
	}
	switch v.Kind {
	case "assert":
		c.Expect = v.ID
	case "panic", "deadlock", "race":
		c.Expect = v.Kind
	}
	return c
}

// goTool is the go1.24.0 toolchain wrapper.
var goTool = filepath.Join(verifDir, "tools/go")

// nativeReplay runs the cases against the real build of /repo (harness + vf injected with
// -overlay; /repo is not written) and returns one result per case id.
func (r *propRun) nativeReplay(j Job, cases []nativeCase, extraEnv []string, extraOverlay map[string]string, race bool) (map[string]nativeResult, string, error) {
	dir, err := os.MkdirTemp(r.work, "replay")
	if err != nil {
		return nil, "", err
	}
	wf := filepath.Join(dir, "witness.json")
	b, _ := json.Marshal(cases)
	if err := os.WriteFile(wf, b, 0644); err != nil {
		return nil, "", err
	}
	pkgPath := modPath
	pkgDir := repoDir
	if j.Pkg != "" {
		pkgPath += "/" + j.Pkg
		pkgDir = filepath.Join(repoDir, j.Pkg)
	}
	// generated test entry point listing every VH_ function of the package
	var tb bytes.Buffer
	fmt.Fprintf(&tb, "package %s\n\nimport (\n\t\"testing\"\n\n\tvf \"%s/internal/zzvf\"\n)\n\nfunc TestVHReplay(t *testing.T) {\n\tvf.ReplayMain(t, map[string]func(){\n", r.ld.pkgName[pkgPath], modPath)
	for _, h := range r.ld.harness[pkgPath] {
		fmt.Fprintf(&tb, "\t\t%q: %s,\n", h, h)
	}
	fmt.Fprintf(&tb, "\t})\n}\n")
	tf := filepath.Join(dir, "zz_verif_replay_test.go")
	if err := os.WriteFile(tf, tb.Bytes(), 0644); err != nil {
		return nil, "", err
	}
	ov := map[string]string{}
	for v, real := range r.ld.overlay {
		ov[v] = real
	}
	for v, real := range extraOverlay {
		ov[v] = real
	}
	ov[filepath.Join(pkgDir, "zz_verif_replay_test.go")] = tf
	needClock := false
	for _, c := range cases {
		if len(c.WalClock) > 0 {
			needClock = true
		}
	}
	if needClock {
		// overlay-only copy of wal/wal.go whose time.Now() is the witness's clock
		walSrc := filepath.Join(repoDir, "wal/wal.go")
		if o, ok := ov[walSrc]; ok {
			walSrc = o // already instrumented (gated replay): the clock goes on top
		}
		if src, err := os.ReadFile(walSrc); err == nil && strings.Contains(string(src), "time.Now()") {
			mod := strings.Replace(string(src), "time.Now()", "zzvf.WalNow()", -1)
			mod = strings.Replace(mod, "import (", "import (\n\tzzvf \""+modPath+"/internal/zzvf\"", 1) + "\nvar _ = time.Now\n"
			wf2 := filepath.Join(dir, "wal_clock.go")
			if os.WriteFile(wf2, []byte(mod), 0644) == nil {
				ov[filepath.Join(repoDir, "wal/wal.go")] = wf2
			}
		}
	}
	ob, _ := json.Marshal(map[string]any{"Replace": ov})
	of := filepath.Join(dir, "overlay.json")
	if err := os.WriteFile(of, ob, 0644); err != nil {
		return nil, "", err
	}
	args := []string{"test", "-v", "-vet=off", "-count=1", "-overlay", of, "-run", "^TestVHReplay$", "-timeout", "120s"}
	if race {
		args = append(args, "-race")
	}
	args = append(args, "./"+j.Pkg)
	cmd := exec.Command(goTool, args...)
	cmd.Dir = repoDir
	// the native run's temporary directories live (and die) with this run's work directory
	tmp := filepath.Join(r.work, "tmp")
	_ = os.MkdirAll(tmp, 0755)
	cmd.Env = append(os.Environ(), "VF_WITNESS="+wf, "TMPDIR="+tmp)
	cmd.Env = append(cmd.Env, extraEnv...)
	var out bytes.Buffer
	cmd.Stdout = &out
	cmd.Stderr = &out
	t0 := time.Now()
	runErr := cmd.Run()
	_ = t0
	res := map[string]nativeResult{}
	for _, line := range strings.Split(out.String(), "\n") {
		if i := strings.Index(line, "VFRESULT "); i >= 0 {
			var nr nativeResult
			if json.Unmarshal([]byte(line[i+9:]), &nr) == nil {
				res[nr.ID] = nr
			}
		}
	}
	if len(res) == 0 && runErr != nil {
		return res, out.String(), fmt.Errorf("native replay produced no results: %v", runErr)
	}
	return res, out.String(), nil
}

func contains(xs []string, s string) bool {
	for _, x := range xs {
		if x == s {
			return true
		}
	}
	return false
}

// confirms reports whether the native result reproduces the engine's violation.
func confirms(v interp.Violation, nr nativeResult) bool {
	switch v.Kind {
	case "assert":
		if v.Known != "" {
			return contains(nr.Known, v.Known+"|"+v.ID)
		}
		return contains(nr.Failed, v.ID)
	case "panic":
		return nr.Panic != ""
	case "deadlock":
		// natively a call that never returns shows up as a panic (test timeout) or as the
		// harness's own watchdog assertion
		return nr.Panic != "" || len(nr.Failed) > 0
	}
	return false
}

type savedReplay struct {
	Property string           `json:"property"`
	Tier     string           `json:"tier"`
	Job      Job              `json:"job"`
	Kind     string           `json:"kind"`
	ID       string           `json:"assertion"`
	Msg      string           `json:"message,omitempty"`
	Witness  interp.Witness   `json:"witness"`
	Native   *nativeResult    `json:"native_result,omitempty"`
	Decision []interp.Decision `json:"decisions,omitempty"`
	How      string           `json:"how_to_replay"`
}

func replaySaved(path string) int {
	b, err := os.ReadFile(path)
	if err != nil {
		fmt.Fprintln(os.Stderr, err)
		return 2
	}
	var sr savedReplay
	if err := json.Unmarshal(b, &sr); err != nil {
		fmt.Fprintln(os.Stderr, err)
		return 2
	}
	ld, err := loadProgram()
	if err != nil {
		fmt.Fprintln(os.Stderr, err)
		return 2
	}
	work := filepath.Join(outDir, ".work", fmt.Sprintf("replay-%d", os.Getpid()))
	os.MkdirAll(work, 0755)
	defer os.RemoveAll(work)
	r := &propRun{prop: sr.Property, tier: sr.Tier, work: work, ld: ld}
	v := interp.Violation{Kind: sr.Kind, ID: sr.ID, W: sr.Witness, Decisions: sr.Decision}
	ok, nr, out := r.confirmNative(sr.Job, v)
	if nr != nil {
		jb, _ := json.MarshalIndent(nr, "", " ")
		fmt.Printf("native result: %s\n", jb)
	} else {
		fmt.Println(out)
	}
	if ok {
		fmt.Printf("REPRODUCED property=%s assertion=%s\n", sr.Property, sr.ID)
		return 1
	}
	fmt.Println("not reproduced")
	return 0
}
