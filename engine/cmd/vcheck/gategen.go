// gate instrumenter: rewrites Go source so that every synchronisation operation is preceded by
// zzgate.At(site) and followed by zzgate.After().  The output is used only through
// `go test -overlay`; /repo is never written.
package main

import (
	"bytes"
	"fmt"
	"go/ast"
	"go/format"
	"go/parser"
	"go/token"
	"strings"
)

const gatePkg = "github.com/B1NARY-GR0UP/originium/internal/zzgate"

var fset = token.NewFileSet()
var rel string // NOTE: the instrumenter is used sequentially

func site(p token.Pos) string {
	pos := fset.Position(p)
	return fmt.Sprintf("%s:%d:%d", rel, pos.Line, pos.Column)
}

func gateCall(name string, args ...ast.Expr) *ast.ExprStmt {
	return &ast.ExprStmt{X: &ast.CallExpr{Fun: &ast.SelectorExpr{X: ast.NewIdent("zzgate"), Sel: ast.NewIdent(name)}, Args: args}}
}

func lit(s string) ast.Expr { return &ast.BasicLit{Kind: token.STRING, Value: fmt.Sprintf("%q", s)} }

var syncMethods = map[string]bool{"Lock": true, "Unlock": true, "RLock": true, "RUnlock": true, "Load": true, "Store": true}

// gatedCall reports whether e is a call that the engine records as a sync event.
func gatedCall(e ast.Expr) (*ast.CallExpr, bool) {
	c, ok := e.(*ast.CallExpr)
	if !ok {
		return nil, false
	}
	switch f := c.Fun.(type) {
	case *ast.SelectorExpr:
		if x, ok := f.X.(*ast.Ident); ok && x.Name == "atomic" && (f.Sel.Name == "LoadUint32" || f.Sel.Name == "StoreUint32") {
			return c, true
		}
		if syncMethods[f.Sel.Name] && len(c.Args) <= 1 {
			// Load()/Store(x)/Lock()...: exclude things like binary.Write
			if (f.Sel.Name == "Load" || strings.HasSuffix(f.Sel.Name, "ock")) && len(c.Args) != 0 {
				return nil, false
			}
			return c, true
		}
	case *ast.Ident:
		if f.Name == "close" && len(c.Args) == 1 {
			return c, true
		}
	}
	return nil, false
}

// findGated returns the first gated call nested in an expression.
func findGated(n ast.Node) *ast.CallExpr {
	var found *ast.CallExpr
	ast.Inspect(n, func(x ast.Node) bool {
		if found != nil {
			return false
		}
		if _, ok := x.(*ast.FuncLit); ok {
			return false
		}
		if e, ok := x.(ast.Expr); ok {
			if c, ok := gatedCall(e); ok {
				found = c
				return false
			}
		}
		return true
	})
	return found
}

func findRecv(n ast.Node) *ast.UnaryExpr {
	var found *ast.UnaryExpr
	ast.Inspect(n, func(x ast.Node) bool {
		if found != nil {
			return false
		}
		if _, ok := x.(*ast.FuncLit); ok {
			return false
		}
		if u, ok := x.(*ast.UnaryExpr); ok && u.Op == token.ARROW {
			found = u
			return false
		}
		return true
	})
	return found
}

func rewriteList(list []ast.Stmt) []ast.Stmt {
	var out []ast.Stmt
	for _, st := range list {
		switch s := st.(type) {
		case *ast.ExprStmt:
			if c, ok := gatedCall(s.X); ok {
				out = append(out, gateCall("At", lit(site(c.Lparen))), s, gateCall("After"))
				continue
			}
			if u := findRecv(s); u != nil {
				out = append(out, gateCall("At", lit(site(u.OpPos))), s, gateCall("After"))
				continue
			}
		case *ast.AssignStmt:
			if u := findRecv(s); u != nil {
				out = append(out, gateCall("At", lit(site(u.OpPos))), s, gateCall("After"))
				continue
			}
		case *ast.SendStmt:
			// the value is evaluated before the send event: hoist anything that is not a plain name
			if _, simple := s.Value.(*ast.Ident); !simple {
				if _, isLit := s.Value.(*ast.BasicLit); !isLit {
					tmp := ast.NewIdent("zzsendv")
					assign := &ast.AssignStmt{Lhs: []ast.Expr{tmp}, Tok: token.DEFINE, Rhs: []ast.Expr{s.Value}}
					at := gateCall("At", lit(site(s.Arrow)))
					s.Value = tmp
					out = append(out, &ast.BlockStmt{List: []ast.Stmt{assign, at, s, gateCall("After")}})
					continue
				}
			}
			out = append(out, gateCall("At", lit(site(s.Arrow))), s, gateCall("After"))
			continue
		case *ast.DeferStmt:
			if c, ok := gatedCall(s.Call); ok {
				body := &ast.BlockStmt{List: []ast.Stmt{gateCall("At", lit(site(c.Lparen))), &ast.ExprStmt{X: s.Call}, gateCall("After")}}
				s.Call = &ast.CallExpr{Fun: &ast.FuncLit{Type: &ast.FuncType{Params: &ast.FieldList{}}, Body: body}}
				out = append(out, s)
				continue
			}
		case *ast.ReturnStmt:
			if c := findGated(s); c != nil {
				out = append(out, gateCall("At", lit(site(c.Lparen))), &ast.DeferStmt{Call: &ast.CallExpr{Fun: &ast.SelectorExpr{X: ast.NewIdent("zzgate"), Sel: ast.NewIdent("After")}}}, s)
				continue
			}
		case *ast.GoStmt:
			id := ast.NewIdent("zzcid")
			spawn := &ast.AssignStmt{Lhs: []ast.Expr{id}, Tok: token.DEFINE, Rhs: []ast.Expr{&ast.CallExpr{Fun: &ast.SelectorExpr{X: ast.NewIdent("zzgate"), Sel: ast.NewIdent("Spawn")}}}}
			body := &ast.BlockStmt{List: []ast.Stmt{gateCall("Register", id), &ast.ExprStmt{X: s.Call}}}
			s2 := &ast.GoStmt{Call: &ast.CallExpr{Fun: &ast.FuncLit{Type: &ast.FuncType{Params: &ast.FieldList{}}, Body: body}}}
			out = append(out, &ast.BlockStmt{List: []ast.Stmt{gateCall("At", lit(site(s.Go))), spawn, s2, gateCall("After")}})
			continue
		case *ast.SelectStmt:
			for _, cc := range s.Body.List {
				cl := cc.(*ast.CommClause)
				cl.Body = append([]ast.Stmt{gateCall("After")}, cl.Body...)
			}
			out = append(out, gateCall("At", lit(site(s.Select))), s)
			continue
		case *ast.IfStmt:
			// a gated call in the condition, e.g. `if w.DoneUntil() >= ts` is inside DoneUntil itself; nothing to do
		}
		out = append(out, st)
	}
	return out
}

type rewriter struct{}

func (rewriter) Visit(n ast.Node) ast.Visitor {
	switch b := n.(type) {
	case *ast.BlockStmt:
		b.List = rewriteList(b.List)
	case *ast.CaseClause:
		b.Body = rewriteList(b.Body)
	case *ast.CommClause:
		b.Body = rewriteList(b.Body)
	}
	return rewriter{}
}

// instrumentFile returns the gated version of src; relName is the path used in site labels
// (relative to the module root, as the engine prints them).
func instrumentFile(src []byte, relName string) ([]byte, error) {
	rel = relName
	f, err := parser.ParseFile(fset, relName, src, parser.ParseComments)
	if err != nil {
		return nil, err
	}
	var nodes []ast.Node
	ast.Inspect(f, func(n ast.Node) bool {
		switch n.(type) {
		case *ast.BlockStmt, *ast.CaseClause, *ast.CommClause:
			nodes = append(nodes, n)
		}
		return true
	})
	for _, n := range nodes {
		switch b := n.(type) {
		case *ast.BlockStmt:
			b.List = rewriteList(b.List)
		case *ast.CaseClause:
			b.Body = rewriteList(b.Body)
		case *ast.CommClause:
			b.Body = rewriteList(b.Body)
		}
	}
	imp := &ast.ImportSpec{Name: ast.NewIdent("zzgate"), Path: &ast.BasicLit{Kind: token.STRING, Value: fmt.Sprintf("%q", gatePkg)}}
	decl := &ast.GenDecl{Tok: token.IMPORT, Specs: []ast.Spec{imp}}
	f.Decls = append([]ast.Decl{decl}, f.Decls...)
	f.Comments = nil
	var buf bytes.Buffer
	if err := format.Node(&buf, token.NewFileSet(), f); err != nil {
		return nil, err
	}
	return buf.Bytes(), nil
}
