package main

import "time"

var _ = time.Second

func params(kv ...any) map[string]int {
	m := map[string]int{}
	for i := 0; i+1 < len(kv); i += 2 {
		m[kv[i].(string)] = kv[i+1].(int)
	}
	return m
}

const (
	aFilter = "bloom filter summarised by assume/guarantee (members are never denied = C16, discharged on the real code; false positives arbitrary)"
	aS2     = "s2 compression modelled as an injective stored-block framing for symbolic content (s2 round-trips any stream; concatenated streams decode to the concatenation)"
	aFS     = "file system model: POSIX semantics of the calls used, no I/O errors, ReadDir sorted by name"
	aClock  = "clock non-decreasing; two WAL files are never created in the same nanosecond"
)

// jobsFor returns the harness runs that decide a property at a tier.
func jobsFor(prop, tier string) []Job {
	thorough := tier == "thorough"
	var js []Job
	switch prop {
	case "C10":
		mk := func(name string, p map[string]int) Job {
			return Job{Name: name, Pkg: "", Fn: "VH_C10", Inits: true, FilterSummary: true, Samples: 4, Params: p,
				Bounds:  map[string]any{"tables": p["T"], "entries_per_table": p["E"], "user_key_bytes": "1 (first KL2 entries: 2), all byte values incl. '@' and bytes below '@'", "timestamps": "0..MAXTS decimal", "block_size": "symbolic 0..64 (down to one entry per block)", "query": "symbolic key bytes and timestamp", "params": p},
				Assumes: []string{aFilter, aS2, aFS, "entries of one table are sorted and distinct (what memtable.all() delivers); a (key, version) pair occurs once over all tables"},
				Outside: []string{"more tables/entries than the listed configurations", "user keys longer than 2 bytes", "timestamps above 99"}}
		}
		js = []Job{
			mk("c10-1x3", params("T", 1, "E", 3)),
			mk("c10-2x2", params("T", 2, "E", 2)),
			mk("c10-3x1-recover", params("T", 3, "E", 1, "RECOVER", 1, "KL2", 1)),
			mk("c10-2x1-ts99", params("T", 2, "E", 1, "MAXTS", 99)),
		}
		if thorough {
			js = append(js,
				mk("c10-1x4", params("T", 1, "E", 4)),
				mk("c10-2x2-k2", params("T", 2, "E", 2, "KL2", 2, "QKL", 2)),
				mk("c10-2x3", params("T", 2, "E", 3)),
				mk("c10-2x2-recover", params("T", 2, "E", 2, "RECOVER", 1)),
			)
		}
	}
	return js
}
