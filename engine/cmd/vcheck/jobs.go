package main

import "time"

var _ = time.Second

func params(kv ...any) map[string]int {
	m := map[string]int{}
	for i := 0; i+1 < len(kv); i += 2 {
		m[kv[i].(string)] = kv[i+1].(int)
	}
	return m
}

const (
	aFilter = "bloom filter summarised by assume/guarantee (members are never denied = C16, discharged on the real code; false positives arbitrary)"
	aS2     = "s2 compression modelled as an injective stored-block framing for symbolic content (s2 round-trips any stream; concatenated streams decode to the concatenation)"
	aFS     = "file system model: POSIX semantics of the calls used, no I/O errors, ReadDir sorted by name"
	aClock  = "clock non-decreasing; two WAL files are never created in the same nanosecond"
)

// jobsFor returns the harness runs that decide a property at a tier.
func jobsFor(prop, tier string) []Job {
	thorough := tier == "thorough"
	var js []Job
	switch prop {
	case "C01":
		mk := func(name string, p map[string]int, eager bool, sched int) Job {
			return Job{Name: name, Pkg: "", Fn: "VH_C01", Inits: true, Samples: 4, Params: p, Eager: eager, Sched: sched > 0, MaxDev: sched,
				Bounds:  map[string]any{"transactions": p["N"], "universe": "KEYS keys of [a, a@, a!, b, a@1] starting at K0", "ops_per_txn": "1 (2 when OPS2=1)", "values": "1 symbolic byte, empty value, or delete", "MemtableByteThreshold": "symbolic 1..120", "DataBlockByteThreshold": "symbolic 1..40", "ImmutableBuffer": "0..IBMAX", "L0TargetNum": "1..L0MAX", "LevelRatio": "1..RATIOMAX", "background_policy": map[bool]string{true: "eager (runs to quiescence at every sync point of the API goroutine)", false: "lazy (runs when the API goroutine blocks or drains)"}[eager], "preemption_bound": sched, "params": p},
				Assumes: []string{"bloom filter: the real filter code and the real murmur3 run on the concrete keys", aS2, aFS, aClock, "skiplist level coins fixed (levels are C17's subject)", "utils.Hash executed exactly on the concrete keys"},
				Outside: []string{"longer histories; values longer than one byte (C11 covers sizes); I/O errors; keys outside the 5-key adversarial universe"}}
		}
		js = []Job{
			mk("c01-n3-drain", params("N", 3, "KEYS", 2, "DRAIN", 1, "KINDS", 3), false, 0),
			mk("c01-n2-drain-ops2-k3", params("N", 2, "KEYS", 3, "DRAIN", 1, "OPS2", 1, "KINDS", 2, "IBMAX", 0, "BLKMAX", 0), false, 0),
			mk("c01-n3-ops2-k3-l0t2", params("N", 3, "KEYS", 3, "DRAIN", 1, "OPS2", 1, "KINDS", 1, "L0MIN", 2, "L0MAX", 2, "IBMAX", 0, "BLKMAX", 0, "K0", 2), false, 0),
			mk("c01-n3-lazy", params("N", 3, "KEYS", 2, "DRAIN", 0, "K0", 1, "IBMAX", 2), false, 0),
			mk("c01-n3-eager", params("N", 3, "KEYS", 2, "DRAIN", 0, "K0", 3), true, 0),
		}
		if thorough {
			js = append(js, mk("c01-n4-drain", params("N", 4, "KEYS", 2, "DRAIN", 1, "L0MAX", 2), false, 0),
				mk("c01-n3-drain-ops2-k3-sets", params("N", 3, "KEYS", 3, "DRAIN", 1, "OPS2", 1, "KINDS", 1, "IBMAX", 0, "BLKMAX", 0), false, 0),
				mk("c01-n4-lazy", params("N", 4, "KEYS", 2, "DRAIN", 0, "K0", 3, "IBMAX", 2), false, 0),
				mk("c01-n4-eager", params("N", 4, "KEYS", 2, "DRAIN", 0, "K0", 0, "L0MAX", 2), true, 0),
				mk("c01-n2-sched1", params("N", 2, "KEYS", 2, "DRAIN", 0), false, 1))
		}
	case "C02":
		mk := func(name string, p map[string]int, sameSecond bool) Job {
			return Job{Name: name, Pkg: "", Fn: "VH_C02", Inits: true, Samples: 4, Params: p, SameSecond: sameSecond,
				Bounds:  map[string]any{"transactions": p["N"], "close_open_cycles": p["CYCLES"], "cycle_positions": "every split of the N transactions over the runs (forked)", "universe": "KEYS keys of [a, a@, a!, b, a@1] from K0", "config_per_run": "MemtableByteThreshold symbolic 1..120, block size {1,40}, ImmutableBuffer 0..IBMAX; L0TargetNum/LevelRatio fixed for the directory", "clock": map[bool]string{true: "all WAL files created within one second (nanosecond part 3,6,9,12,.. decides)", false: "one second per time.Now call"}[sameSecond], "params": p},
				Assumes: []string{"bloom filter: the real filter code and the real murmur3 run on the concrete keys", aS2, aFS, aClock, "frugal/thrift-binary model of types.Entry"},
				Outside: []string{"longer histories, more than 2 cycles", "clock stepping backwards between runs"}}
		}
		js = []Job{
			mk("c02-n3-1cycle", params("N", 3, "CYCLES", 1, "KEYS", 2, "BLKMAX", 0), false),
			mk("c02-n3-1cycle-drain", params("N", 3, "CYCLES", 1, "KEYS", 2, "K0", 1, "DRAIN", 1, "IBMAX", 0), true),
			mk("c02-n2-2cycles", params("N", 2, "CYCLES", 2, "KEYS", 2, "K0", 3, "BLKMAX", 0), true),
			mk("c02-n3-close-with-pending-flushes", params("N", 3, "CYCLES", 1, "KEYS", 2, "K0", 0, "STALL", 1, "IBMIN", 2, "IBMAX", 2, "BLKMAX", 0, "KINDS", 2), false),
			func() Job {
				j := mk("c02-manyfiles", params("N", 12, "L0T", 12), false)
				j.Fn = "VH_C02_ManyFiles"
				j.Bounds = map[string]any{"tables_in_L0_before_reopen": 12, "then": "reopen, 2 more flushes, compaction of 14 tables, reopen", "keys": "concrete keya..keyn", "values": "symbolic bytes"}
				return j
			}(),
		}
		if thorough {
			js = append(js, mk("c02-n3-2cycles", params("N", 3, "CYCLES", 2, "KEYS", 2, "IBMAX", 0, "BLKMAX", 0), true),
				mk("c02-n4-1cycle-drain", params("N", 4, "CYCLES", 1, "KEYS", 2, "DRAIN", 1, "IBMAX", 0), false),
				mk("c02-n2-2cycles-ops2", params("N", 2, "CYCLES", 2, "KEYS", 2, "OPS2", 1, "K0", 2, "IBMAX", 0, "BLKMAX", 0, "KINDS", 2), false))
		}
	case "C03", "C04", "C14":
		mk := func(name string, p map[string]int, crashes int, tears bool, eager bool, sched int) Job {
			return Job{Name: name, Pkg: "", Fn: "VH_C03_P1", Fn2: "VH_C03_P2", Inits: true, Samples: 6, Params: p, MaxCrashes: crashes, Tears: tears, Eager: eager, Sched: sched > 0, MaxDev: sched,
				Bounds:  map[string]any{"workload": p["W"], "crash_points": "before every mutating file-system operation (create, truncate, write, fsync, remove) of every goroutine", "crashes_per_run": crashes, "torn_tails": map[bool]string{true: "every file with unsynced bytes is cut at every length between its synced and written length", false: "process-crash model: every completed operation persists"}[tears], "preemption_bound": sched, "params": p},
				Assumes: []string{"concrete keys and values (every file byte concrete, real s2 and thrift encodings)", aFS, aClock, "directory operations are ordered and durable", "native confirmation runs the real recovery code on the engine's crash image"},
				Outside: []string{"I/O errors, partial (non-prefix) writes, reordering of writes to different files beyond the fsync model", "workloads other than the listed ones"}}
		}
		tears := prop == "C14"
		defer func() {
			// the three properties share the harness; each counts its own assertions
			for i := range js {
				switch prop {
				case "C03", "C14":
					js[i].OnlyAsserts = []string{"C03."}
				case "C04":
					js[i].OnlyAsserts = []string{"C04."}
					js[i].IgnorePanics = true
				}
			}
		}()
		js = []Job{
			mk("crash-w0", params("W", 0), 1, tears, false, 0),
			mk("crash-w1-multikey", params("W", 1, "MEMTHR", 60), 1, tears, false, 0),
			func() Job {
				j := mk("crash-w2-samesecond", params("W", 2), 1, tears, false, 0)
				j.SameSecond = true // all WAL names within one second: the nanosecond part (3, 6, 9, 12, ..) orders them
				return j
			}(),
		}
		js = append(js, mk("crash-w1-2crashes", params("W", 1, "MEMTHR", 60), 2, false, false, 0),
			mk("crash-w3-straddle", params("W", 3, "MEMTHR", 44), 1, tears, false, 0))
		if prop == "C03" {
			// restart with more than ten tables in a level, then further flushes and a compaction
			j := mk("crash-manyfiles-restart", params("N", 12, "L0T", 12, "C03", 1), 0, false, false, 0)
			j.Fn, j.Fn2 = "VH_C02_ManyFiles", ""
			j.Bounds = map[string]any{"tables_in_L0": 12, "then": "clean restart, 2 more flushes, compaction of 14 tables, restart"}
			js = append(js, j)
		}
		if !tears { // (a 64 KiB unsynced tail would be cut at 64 Ki lengths)
			js = append(js, mk("crash-w6-large-value", params("W", 6, "MEMTHR", 100000, "POSTN", 0), 1, false, false, 0))
		}
		if thorough {
			js = append(js, mk("crash-w2", params("W", 2), 1, tears, false, 0),
				mk("crash-w0-2crashes", params("W", 0), 2, false, false, 0),
				mk("crash-w0-nodrain-eager", params("W", 0, "DRAIN", 0, "IB", 0), 1, tears, true, 0))
			if !tears { // (with every tear length on top of the schedules the job does not complete)
				j := mk("crash-w4-sched1", params("W", 4, "DRAIN", 0, "ZONE", 2, "POSTN", 1), 1, false, false, 1)
				j.ZoneOnly = true // schedules explored in the workload phase, recovery under the default schedule
				js = append(js, j)
			}
		}
		{
			// Close with flushes pending (flusher slower than the writers): schedules and crash
			// points explored inside Close
			j := mk("crash-w4-close-with-pending-flushes", params("W", 4, "DRAIN", 0, "IB", 4, "FINALDRAIN", 0, "STALL", 1, "ZONE", 1, "POSTN", 1), 1, tears, false, 1)
			j.ZoneOnly = true
			if !tears || thorough {
				js = append(js, j)
			}
			j5 := mk("crash-w5-close-with-pending-flushes-multikey", params("W", 5, "MEMTHR", 50, "DRAIN", 0, "IB", 4, "FINALDRAIN", 0, "STALL", 1, "ZONE", 1, "POSTN", 1), 1, tears, false, 1)
			j5.ZoneOnly = true
			if prop == "C04" || thorough {
				js = append(js, j5)
			}
		}
		if tears && !thorough {
			// C14 quick: the clock variant is C03's; keep the tear space inside the time budget
			var keep []Job
			for _, j := range js {
				if j.Name != "crash-w2-samesecond" {
					keep = append(keep, j)
				}
			}
			js = keep
		}
	case "C05", "C06", "C07", "C08":
		mk := func(name string, p map[string]int) Job {
			return Job{Name: name, Pkg: "", Fn: "VH_TXN", Inits: true, Samples: 4, Params: p,
				Bounds:  map[string]any{"transactions": p["NT"], "scripts": "LIB library scripts from LIB0 (write skew halves, long reader, multi-key writer, read-modify-write, abandoned writer, delete, misuse, ...)", "interleavings": "every interleaving of the scripts' API calls on one goroutine (forked)", "values": "symbolic bytes", "MemtableByteThreshold": "symbolic 1..120 (rotation/flush/compaction with version GC between arbitrary steps)", "params": p},
				Assumes: []string{"utils.Hash executed exactly on the concrete keys (no fingerprint collision among them)", "bloom filter: real code on concrete keys", aS2, aFS, aClock},
				Outside: []string{"more than NT concurrent transactions, scripts outside the library", "true goroutine concurrency of transactions (C12 harness)", "fingerprint collisions"}}
		}
		js = []Job{
			mk("txn-2-core", params("NT", 2, "LIB0", 0, "LIB", 5, "K0", 0, "IBMAX", 0, "BLKMAX", 0)),
			mk("txn-2-rw-del", params("NT", 2, "LIB0", 3, "LIB", 4, "K0", 2, "IBMAX", 0, "BLKMAX", 0, "REOPEN", 0)),
			mk("txn-1-misuse", params("NT", 1, "LIB0", 7, "LIB", 5, "K0", 3, "UPDATEERR", 1)),
			mk("txn-1-updateerr", params("NT", 1, "LIB0", 2, "LIB", 3, "K0", 1, "UPDATEERR", 1, "IBMAX", 0, "BLKMAX", 0)),
			func() Job {
				j := mk("c08-close-with-backlog", params("N", 3))
				j.Fn = "VH_C08_CloseBacklog"
				j.Bounds = map[string]any{"commits": 3, "flusher": "stalled during the workload, Close finds 3 memtables queued"}
				return j
			}(),
			mk("txn-2-readonlyrw-vs-writer", params("NT", 2, "S0", 9, "S1", 3, "K0", 0, "MEMFIX", 4096, "REOPEN", 0)),
			mk("txn-2-rmw-writer-2extracommits", params("NT", 2, "S0", 4, "S1", 3, "K0", 0, "EXTRA", 2, "MEMFIX", 4096, "REOPEN", 0)),
			mk("txn-2-rmw-vs-use-after-commit", params("NT", 2, "S0", 4, "S1", 11, "K0", 0, "MEMFIX", 4096, "REOPEN", 0)),
			mk("txn-2-nodrain-queue", params("NT", 2, "LIB0", 3, "LIB", 2, "K0", 3, "DRAIN", 0, "IBMIN", 2, "IBMAX", 2, "BLKMAX", 0, "REOPEN", 0)),
			mk("txn-2-extracommit", params("NT", 2, "LIB0", 3, "LIB", 2, "K0", 0, "EXTRA", 1, "MEMFIX", 4096, "REOPEN", 0)),
			mk("txn-2-reader-writer-extracommit-gc", params("NT", 2, "LIBFIX", 23, "K0", 0, "EXTRA", 1, "IBMAX", 0, "BLKMAX", 0, "REOPEN", 0)),
		}
		if thorough {
			js = append(js, mk("txn-3-short", params("NT", 3, "LIB0", 2, "LIB", 3, "K0", 1, "BLKMAX", 0, "IBMAX", 0, "REOPEN", 0)),
				mk("txn-2-updateerr", params("NT", 2, "LIB0", 2, "LIB", 2, "K0", 1, "UPDATEERR", 1, "IBMAX", 0, "BLKMAX", 0)),
				mk("txn-2-extracommit-gc", params("NT", 2, "LIB0", 2, "LIB", 2, "K0", 0, "EXTRA", 1, "IBMAX", 0, "BLKMAX", 0, "REOPEN", 0)),
				mk("txn-2-all", params("NT", 2, "LIB", 12, "K0", 3, "IBMAX", 0, "BLKMAX", 0)),
				mk("txn-2-core-nodrain", params("NT", 2, "LIB0", 0, "LIB", 7, "K0", 0, "DRAIN", 0)))
		}
		if prop == "C06" || prop == "C07" || prop == "C05" {
			// true goroutine concurrency of two conflicting transactions
			cj := Job{Name: "txn-conc2-dev1", Pkg: "", Fn: "VH_CONC2", Inits: true, Samples: 3, Sched: true, MaxDev: 1, Replay: "gated", Params: params("MEMTHR", 1000),
				Bounds:  map[string]any{"goroutines": "2 read-modify-write transactions on one key + the harness reader + engine background goroutines", "schedules": "all picks at blocking points + 1 preemption (thorough: 2)", "values": "symbolic, pairwise distinct"},
				Assumes: []string{"Go memory model for the sync primitives as modelled by the cooperative runtime", "utils.Hash exact on concrete keys"},
				Outside: []string{"more than two concurrent read-write transactions", "more preemptions than the bound"}}
			js = append(js, cj)
			c4 := cj
			c4.Name, c4.Fn, c4.Params = "txn-conc4-begin-during-commit-dev1", "VH_CONC4", params("MEMTHR", 1000)
			c4.Bounds = map[string]any{"goroutines": "a two-key committer + a reader whose Begin may fall inside the commit + engine background goroutines", "schedules": "all picks at blocking points + 1 preemption (thorough: 2)"}
			js = append(js, c4)
			if thorough {
				c42 := c4
				c42.Name, c42.MaxDev, c42.Params = "txn-conc4-dev2-rotating", 2, params("MEMTHR", 20)
				js = append(js, c42)
			}
			if thorough {
				cj2 := cj
				cj2.Name, cj2.MaxDev = "txn-conc2-dev2-rotating", 2
				cj2.Params = params("MEMTHR", 20, "IBMAX", 1)
				js = append(js, cj2)
			}
		}
		defer func() {
			for i := range js {
				switch prop {
				case "C05":
					js[i].OnlyAsserts = []string{"C05."}
				case "C06":
					js[i].OnlyAsserts = []string{"C06.", "C05."}
				case "C07":
					js[i].OnlyAsserts = []string{"C07."}
				case "C08":
					js[i].OnlyAsserts = []string{"C08."}
				}
				js[i].IgnorePanics = prop != "C05"
			}
		}()
	case "C12", "C15":
		mk := func(name string, p map[string]int, dev int, eager bool) Job {
			j := Job{Name: name, Pkg: "", Fn: "VH_CONC", Inits: true, Samples: 3, Params: p, Sched: dev > 0, MaxDev: dev, Eager: eager, Replay: "gated",
				Bounds:  map[string]any{"writer_goroutines": p["WRITERS"], "commits_per_writer": p["COMMITS"], "reader": "one View with two Gets on the harness goroutine", "background": "the engine's real flusher/compactor and watermark goroutines", "ImmutableBuffer": "0..IBMAX", "schedules": "every choice of the next goroutine at blocking points plus up to preemption_bound preemptions after non-blocking synchronisation operations", "preemption_bound": dev, "params": p},
				Assumes: []string{"Go memory model for Mutex/RWMutex/channels/atomics/WaitGroup/sync.Pool as modelled by the cooperative runtime (vector-clock happens-before monitor)", "context switches only at synchronisation operations (sufficient for data-race-free executions; races themselves are reported by the monitor)", aFS, aClock, "races are confirmed by the Go race detector on a gated native replay of the engine's schedule"},
				Outside: []string{"more goroutines/commits, more preemptions than the bound", "starvation under unfair schedulers, wall-clock latency"}}
			if prop == "C12" {
				j.Races = true
				j.OnlyAsserts = []string{"C12."}
			} else {
				j.OnlyAsserts = []string{"C15."}
			}
			return j
		}
		js = []Job{
			mk("conc-1w2c-dev1", params("WRITERS", 1, "COMMITS", 2, "IBMAX", 1), 1, false),
			mk("conc-1w2c-eager", params("WRITERS", 1, "COMMITS", 2, "IBMAX", 2), 0, true),
			mk("conc-1w2c-afterack-dev1", params("WRITERS", 1, "COMMITS", 2, "IBMAX", 0, "AFTERACK", 1), 1, false),
			func() Job {
				j := mk("close-with-backlog-dev1", params("N", 3), 1, false)
				j.Fn = "VH_C08_CloseBacklog"
				return j
			}(),
			func() Job {
				j := mk("conc3-2writers-prebegun-dev1", params("MEMTHR", 20, "IBMAX", 1), 1, false)
				j.Fn = "VH_CONC3"
				return j
			}(),
		}
		if prop == "C12" {
			cj := mk("conc2-rmw-dev1", params("MEMTHR", 1000), 1, false)
			cj.Fn = "VH_CONC2"
			cj.OnlyAsserts = []string{"C05.", "C06.", "C07."}
			js = append(js, cj)
			c4 := mk("conc4-begin-during-commit-dev1", params("MEMTHR", 1000), 1, false)
			c4.Fn = "VH_CONC4"
			c4.OnlyAsserts = []string{"C05."}
			js = append(js, c4)
			// a reader whose snapshot predates the second commit reads after that commit was acknowledged,
			// while the flush of the second memtable is under way (schedules explored from the acknowledgement on)
			oz := mk("conc-oldsnapshot-reader-zone-dev2", params("WRITERS", 1, "COMMITS", 2, "IBMAX", 0, "AFTERACK", 1, "SECOND", 1, "ZONE", 1), 2, false)
			oz.ZoneOnly = true
			js = append(js, oz)
			c5 := mk("conc5-two-readers-on-sstables-dev1", params(), 1, false)
			c5.Fn = "VH_CONC5"
			js = append(js, c5)
			// two committers whose commits rotate the memtable
			cr := mk("conc2-rmw-rotating-dev1", params("MEMTHR", 20, "IBMAX", 1), 1, false)
			cr.Fn = "VH_CONC2"
			cr.OnlyAsserts = []string{"C05.", "C06.", "C07."}
			js = append(js, cr)
		}
		if thorough {
			js = append(js, func() Job {
				j := mk("conc-1w2c-dev2", params("WRITERS", 1, "COMMITS", 2, "IBMAX", 0, "AFTERACK", 1), 2, false)
				j.Cap = 1500 * time.Second
				return j
			}(), mk("conc-1w2c-oldsnapshot-reader-dev2", params("WRITERS", 1, "COMMITS", 2, "IBMAX", 0, "AFTERACK", 1, "SECOND", 1), 2, false),
				mk("conc-2w2c-dev1", params("WRITERS", 2, "COMMITS", 2, "IBMAX", 1), 1, false),
				mk("conc-1w3c-closeearly-dev1", params("WRITERS", 1, "COMMITS", 3, "IBMAX", 1, "CLOSE_EARLY", 1), 1, false))
		}
	case "C09":
		mk := func(name string, p map[string]int) Job {
			return Job{Name: name, Pkg: "", Fn: "VH_C09", Inits: true, FilterSummary: true, Samples: 4, Params: p,
				Bounds:  map[string]any{"rounds_of_flush_and_compact": p["R"], "tables_per_round": p["T"], "entries_per_table": p["E"], "l0TargetNum": p["L0T"], "ratio": p["RATIO"], "watermark": "symbolic 0..MAXTS set through the real readMark", "user_key_bytes": "1 (first KL2 entries: 2), all byte values", "timestamps": "0..MAXTS", "tombstones": "symbolic", "block_size": "BLK (0 = one entry per block)", "query": "symbolic key, read timestamp >= watermark", "params": p},
				Assumes: []string{aFilter, aS2, aFS, "entries of one flushed table are sorted and distinct; a (key, version) pair occurs once over all tables"},
				Outside: []string{"more tables/entries/rounds than the listed configurations (3x3 is out of reach)", "user keys longer than 2 bytes"}}
		}
		js = []Job{
			mk("c09-1r-2+1", params("R", 1, "T", 2, "ES", 21, "L0T", 1, "RATIO", 2, "KLMASK", 2)),
			mk("c09-1r-1+2-blk64", params("R", 1, "T", 2, "ES", 12, "L0T", 1, "RATIO", 2, "BLK", 64)),
			mk("c09-2r-cascade-recover", params("R", 2, "T", 1, "E", 2, "E2", 1, "L0T", 0, "RATIO", 1, "RECOVER", 1)),
			func() Job {
				// more than ten tables in a level, handles rebuilt by recovery, then flush + compaction
				j := mk("c09-manyfiles-recover", params("N", 12, "L0T", 12, "C09", 1))
				j.Fn, j.FilterSummary = "VH_C02_ManyFiles", false
				j.Bounds = map[string]any{"tables_in_L0": 12, "then": "reopen (handles rebuilt from 0-0.db .. 0-11.db), 2 more flushes, compaction of 14 tables, reopen", "keys": "concrete", "values": "symbolic bytes"}
				return j
			}(),
		}
		if thorough {
			js = append(js,
				mk("c09-2r-2x1-l1merge", params("R", 2, "T", 2, "E", 1, "L0T", 1, "RATIO", 2, "WM", 0)),
				mk("c09-1r-1+1+2-l0t2", params("R", 1, "T", 3, "ES", 112, "L0T", 2, "RATIO", 2, "WM", 0)),
				mk("c09-1r-2x2", params("R", 1, "T", 2, "E", 2, "L0T", 1, "RATIO", 2)),
				mk("c09-1r-2+1-k2", params("R", 1, "T", 2, "ES", 21, "L0T", 1, "RATIO", 2, "KL2", 2, "QKL", 2)),
				mk("c09-1r-2+1-k2first", params("R", 1, "T", 2, "ES", 21, "L0T", 1, "RATIO", 2, "KLMASK", 1)),
				mk("c09-1r-2+1-ts99", params("R", 1, "T", 2, "ES", 21, "L0T", 1, "RATIO", 2, "MAXTS", 99)),
			)
		}
	case "C10":
		mk := func(name string, p map[string]int) Job {
			return Job{Name: name, Pkg: "", Fn: "VH_C10", Inits: true, FilterSummary: true, Samples: 4, Params: p,
				Bounds:  map[string]any{"tables": p["T"], "entries_per_table": p["E"], "user_key_bytes": "1 (first KL2 entries: 2), all byte values incl. '@' and bytes below '@'", "timestamps": "0..MAXTS decimal", "block_size": "symbolic 0..64 (down to one entry per block)", "query": "symbolic key bytes and timestamp", "params": p},
				Assumes: []string{aFilter, aS2, aFS, "entries of one table are sorted and distinct (what memtable.all() delivers); a (key, version) pair occurs once over all tables"},
				Outside: []string{"more tables/entries than the listed configurations", "user keys longer than 2 bytes", "timestamps above 99"}}
		}
		js = []Job{
			mk("c10-1x3", params("T", 1, "E", 3)),
			mk("c10-2x2", params("T", 2, "E", 2)),
			mk("c10-3x1-recover", params("T", 3, "E", 1, "RECOVER", 1, "KL2", 1)),
			mk("c10-2x1-ts99", params("T", 2, "E", 1, "MAXTS", 99)),
			mk("c10-2x2-levels", params("T", 2, "E", 2, "LEVELS", 2)),
			func() Job {
				j := mk("c10-recovered-realfilter", params("T", 2))
				j.Fn, j.FilterSummary, j.OnlyAsserts = "VH_C16_Recover", false, []string{"C10."}
				j.Bounds = map[string]any{"tables": 2, "keys": "concrete; the real bloom filter (stateful hashers) is probed with a rejected key before every stored key", "handles": "rebuilt by recover()"}
				return j
			}(),
		}
		if thorough {
			js = append(js,
				mk("c10-1x4", params("T", 1, "E", 4)),
				mk("c10-2x2-k2", params("T", 2, "E", 2, "KL2", 2, "QKL", 2)),
				mk("c10-2x2-recover", params("T", 2, "E", 2, "RECOVER", 1)),
				mk("c10-3x1-levels3-recover", params("T", 3, "E", 1, "LEVELS", 3, "RECOVER", 1)),
			)
		}
	case "DBG":
		js = []Job{{Name: "dbg", Pkg: "table", Fn: "VH_Dbg", Inits: true, Samples: 1}}
	case "X09":
		js = []Job{
			{Name: "x-nosum", Pkg: "", Fn: "VH_C09", Inits: true, FilterSummary: true, NoSummaries: true, Params: params("R", 1, "T", 2, "E", 2, "L0T", 1, "RATIO", 2), Cap: 600 * time.Second},
			{Name: "x-sum", Pkg: "", Fn: "VH_C09", Inits: true, FilterSummary: true, Params: params("R", 1, "T", 2, "E", 2, "L0T", 1, "RATIO", 2), Cap: 600 * time.Second},
		}
	case "C11":
		mk := func(name, pkg, fn string, p map[string]int) Job {
			return Job{Name: name, Pkg: pkg, Fn: fn, Inits: true, Samples: 3, Params: p,
				Bounds:  map[string]any{"entries": p["N"], "key_lengths": "digits of KL", "value_lengths": "digits of VL", "content": "all bytes, tombstone and 64-bit version symbolic", "params": p},
				Assumes: []string{aS2, "encoding/binary.Write/Read = exact little-endian byte model", "sync.Pool returns a previously Put buffer (single-P order: private slot, then shared LIFO)", "frugal/thrift-binary model of types.Entry (WAL harness)", aFS},
				Outside: []string{"the s2 bit format for symbolic content", "more entries / longer keys than the listed configurations", "concurrent encoders beyond the two-goroutine job c11-conc-* (engine-level concurrency is C12's harness)"}}
		}
		js = []Job{
			mk("c11-data-n2", "table", "VH_C11_Data", params("N", 2, "KL", 21, "VL", 10)),
			mk("c11-data-n3-prefix", "table", "VH_C11_Data", params("N", 3, "KL", 233, "VL", 102)),
			mk("c11-index-n2", "table", "VH_C11_Index", params("N", 2, "KL", 20)),
			mk("c11-footermeta", "table", "VH_C11_FooterMeta", params()),
			mk("c11-table-n2", "table", "VH_C11_Table", params("N", 2, "KL", 32, "VL", 11)),
			mk("c11-wal-k2", "wal", "VH_C11_WAL", params("K", 2)),
			mk("c11-long-val-65535", "table", "VH_C11_Long", params("LEN", 65535, "WHICH", 0)),
			mk("c11-long-val-65536", "table", "VH_C11_Long", params("LEN", 65536, "WHICH", 0)),
			mk("c11-long-key-65536", "table", "VH_C11_Long", params("LEN", 65536, "WHICH", 1)),
		}
		{
			// two goroutines encoding at the same time: race monitor, schedules, round trips
			j := mk("c11-conc-2encoders-dev1", "table", "VH_C11_Conc", params("N", 2, "KL", 21, "VL", 10, "MORE", 1))
			j.Sched, j.MaxDev, j.Races, j.Replay = true, 1, true, "gated"
			j.PoolPreempt = true
			j.Bounds["goroutines"] = "2 encoders (Data.Encode/Decode, Index.Encode, Meta.Encode), every pick at blocking points plus 1 preemption (also after sync.Pool Get/Put)"
			j.Assumes = append(j.Assumes, "Go memory model as in C12's runtime model; an s2.Writer's state is one race-monitor location (its methods are writes to it)")
			js = append(js, j)
			if thorough {
				j2 := mk("c11-conc-2encoders-dev2", "table", "VH_C11_Conc", params("N", 2, "KL", 21, "VL", 11, "MORE", 1))
				j2.Sched, j2.MaxDev, j2.Races, j2.Replay = true, 2, true, "gated"
				j2.PoolPreempt = true
				j2.Bounds["goroutines"] = "2 encoders, 2 preemptions"
				j2.Assumes = j.Assumes
				js = append(js, j2)
			}
		}
		if thorough {
			js = append(js,
				mk("c11-data-n3-mixed", "table", "VH_C11_Data", params("N", 3, "KL", 313, "VL", 20)),
				mk("c11-index-n3", "table", "VH_C11_Index", params("N", 3, "KL", 123)),
				mk("c11-table-n3", "table", "VH_C11_Table", params("N", 3, "KL", 222, "VL", 101)),
				mk("c11-wal-k3", "wal", "VH_C11_WAL", params("K", 3)),
				mk("c11-long-val-65537", "table", "VH_C11_Long", params("LEN", 65537, "WHICH", 0)),
				mk("c11-long-prefix-65536", "table", "VH_C11_Long", params("LEN", 65536, "WHICH", 2)),
				mk("c11-long-key-65533", "table", "VH_C11_Long", params("LEN", 65533, "WHICH", 1)),
				mk("c11-data-n4-prefixes", "table", "VH_C11_Data", params("N", 4, "KL", 3333, "VL", 1021)),
				mk("c11-data-n5-short", "table", "VH_C11_Data", params("N", 5, "KL", 12121, "VL", 10101)),
				mk("c11-table-n4", "table", "VH_C11_Table", params("N", 4, "KL", 2222, "VL", 1111)),
				mk("c11-index-n4", "table", "VH_C11_Index", params("N", 4, "KL", 3210)),
				mk("c11-wal-k4", "wal", "VH_C11_WAL", params("K", 4)),
			)
		}
	case "C13":
		mk := func(name, fn string, p map[string]int, sched int) Job {
			return Job{Name: name, Pkg: "pkg/watermark", Fn: fn, Inits: true, Samples: 4, Params: p, Sched: sched > 0, MaxDev: sched,
				Bounds:  map[string]any{"marks": p["K"], "indices": "symbolic 64-bit", "kinds": "Begin/Done symbolic; WaitForMark with a cancellable context in the Wait harness", "preemption_bound": sched, "params": p},
				Assumes: []string{"sequence precondition: apart from an optional leading Done (recovery idiom), every Done(i) has an outstanding Begin(i) when it is consumed", "Go memory model for channels, select, atomic.Uint64, WaitGroup as modelled by the cooperative runtime"},
				Outside: []string{"more marks than K (except the concrete overflow scenario)", "Done-before-Begin sequences other than the leading recovery Done", "starvation/timing"}}
		}
		js = []Job{
			mk("c13-k3", "VH_C13", params("K", 3), 0),
			mk("c13-k3-batch", "VH_C13", params("K", 3, "BATCH", 1), 0),
			mk("c13-wait-k2", "VH_C13_Wait", params("K", 2), 0),
			mk("c13-wait-k2-sched1", "VH_C13_Wait", params("K", 2), 1),
			mk("c13-overflow", "VH_C13_Overflow", params(), 0),
		}
		if thorough {
			js = append(js, mk("c13-k4", "VH_C13", params("K", 4), 0), mk("c13-k5", "VH_C13", params("K", 5), 0), mk("c13-k4-batch", "VH_C13", params("K", 4, "BATCH", 1), 0),
				mk("c13-k3-sched2", "VH_C13", params("K", 3), 2), mk("c13-wait-k3-sched2", "VH_C13_Wait", params("K", 3), 2))
		}
	case "C16":
		mk := func(name string, p map[string]int) Job {
			return Job{Name: name, Pkg: "pkg/filter", Fn: "VH_C16", Inits: true, SymIndex: true, Samples: 3, Params: p,
				Bounds:  map[string]any{"entries": p["N"], "entries_with_symbolic_key_bytes": "SYM (default all)", "user_key_lengths": "(KL + i*STEP) mod 10 for entry i: block path, tail path and the unsafe 4-byte load of murmur3", "key_bytes": "all 256 values", "params": p},
				Assumes: []string{"math.Ceil/Log/Pow/Round executed natively on concrete arguments (filter sizing)", aS2},
				Outside: []string{"more than SYM symbolic keys per filter; user keys longer than 9 bytes; Contains on non-members (false positives are allowed by the property)"}}
		}
		js = []Job{
			mk("c16-n1", params("N", 1, "KL", 3)),
			mk("c16-n2", params("N", 2, "KL", 3, "STEP", 2)),
			mk("c16-n3-dup", params("N", 3, "KL", 4, "STEP", 3, "DUP", 1)),
			mk("c16-n4-lens", params("N", 4, "KL", 0, "STEP", 3)),
			mk("c16-n2-decode", params("N", 2, "KL", 5, "STEP", 4, "DECODE", 1)),
			mk("c16-n100-sym2", params("N", 100, "KL", 7, "STEP", 1, "SYM", 2)),
			func() Job {
				j := mk("c16-recovered-filters", params("T", 2))
				j.Pkg, j.Fn, j.SymIndex, j.OnlyAsserts = "", "VH_C16_Recover", false, []string{"C16."}
				j.Bounds = map[string]any{"tables": 2, "keys": "concrete (apple, apple@x, b@d, c): the real filter and murmur3 run", "tombstones_values_versions": "symbolic", "handles": "rebuilt from the files by recover()"}
				return j
			}(),
			func() Job {
				// lookups from two goroutines on the same recovered filters (shared stateful hashers)
				j := mk("c16-concurrent-lookups-dev1", params())
				j.Pkg, j.Fn, j.SymIndex, j.OnlyAsserts = "", "VH_CONC5", false, []string{"C16."}
				j.Sched, j.MaxDev, j.Races, j.Replay = true, 1, true, "gated"
				j.Bounds = map[string]any{"goroutines": "two readers + harness + engine background", "keys": "concrete, all in sstables", "preemption_bound": 1}
				return j
			}(),
			mk("c16-n2-nonmember", params("N", 2, "KL", 2, "STEP", 3, "NONMEMBER", 1)),
		}
		if thorough {
			js = append(js,
				mk("c16-n8", params("N", 8, "KL", 1, "STEP", 1)),
				mk("c16-n6-long", params("N", 6, "KL", 4, "STEP", 1)),
				mk("c16-n5000-sym2", params("N", 5000, "KL", 8, "STEP", 1, "SYM", 2)),
				mk("c16-n3-decode-dup", params("N", 3, "KL", 2, "STEP", 3, "DECODE", 1, "DUP", 1)),
				mk("c16-n3-nonmember", params("N", 3, "KL", 2, "STEP", 3, "NONMEMBER", 1)),
			)
		}
	case "C17":
		mk := func(name string, p map[string]int) Job {
			return Job{Name: name, Pkg: "pkg/skiplist", Fn: "VH_C17", Inits: true, Coins: true, Samples: 6, Params: p,
				Bounds:  map[string]any{"operations": p["N"], "maxLevel": p["ML"], "op_kinds": "Set (DEL=1: also Delete)", "keys": "1 symbolic user-key byte (all 256 values) @ 1 decimal digit", "values": "1 symbolic byte + tombstone flag", "level_coins": "every coin sequence (forked)", "queries": "symbolic Get / LowerBound / Scan bounds, All", "params": p},
				Assumes: []string{"math/rand coin = arbitrary outcome of the comparison Float64() < p (any p in (0,1) yields the same set of level sequences)"},
				Outside: []string{"more operations than N; user keys longer than one byte and multi-digit versions (ordering of those is covered by C10/C09 harnesses through CompareKeys)"}}
		}
		js = []Job{mk("c17-n3-ml2", params("N", 3, "ML", 2, "DEL", 1)), mk("c17-n2-ml3", params("N", 2, "ML", 3, "DEL", 1))}
		if thorough {
			js = append(js, mk("c17-n3-ml3", params("N", 3, "ML", 3, "DEL", 1)), mk("c17-n4-ml2-setonly", params("N", 4, "ML", 2, "DEL", 0)), mk("c17-n3-ml1", params("N", 3, "ML", 1, "DEL", 1)),
				mk("c17-n5-ml2-set-set-del-del-set", params("N", 5, "ML", 2, "OPSEQ", 11221)),
				mk("c17-n4-ml2-set-del-set-set", params("N", 4, "ML", 2, "OPSEQ", 1211)))
		}
	}
	return js
}
