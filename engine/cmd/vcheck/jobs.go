package main

import "time"

var _ = time.Second

// jobsFor returns the harness runs that decide a property at a tier.
func jobsFor(prop, tier string) []Job {
	thorough := tier == "thorough"
	_ = thorough
	switch prop {
	case "C10":
		return []Job{
			{Name: "c10-2x2", Pkg: "", Fn: "VH_C10", Inits: true, FilterSummary: true, Samples: 8},
		}
	}
	return nil
}
