package main

import (
	"encoding/json"
	"fmt"
	"os"
	"path/filepath"
	"strings"

	"gosym/interp"
)

// confirmGated replays a schedule-dependent counterexample natively: the engine's order of
// completed synchronisation events is enforced by gates (zzgate.At/After) that an AST
// rewrite puts around every synchronisation operation in overlay-only copies of the source
// files the trace mentions.  Races are confirmed by the Go race detector on the gated run,
// panics by the native panic, assertion failures by the harness itself.
func (r *propRun) confirmGated(j Job, v interp.Violation) (bool, *nativeResult, string) {
	if len(v.W.Trace) == 0 {
		return false, nil, "no schedule trace"
	}
	if v.Kind == "cover" {
		// translator validation of the runtime model: the native run must follow the engine's
		// schedule to the end of the trace and reproduce the observables
		res, out, err := r.gatedRun(j, v, true)
		if err != nil {
			return false, nil, out
		}
		nr, ok := res["v"]
		if !ok {
			return false, nil, out
		}
		good := !strings.Contains(out, "gate: DIVERGED") && nr.GatePos == nr.GateLen && len(nr.Failed) == 0 && nr.Panic == "" && len(nr.Mismatch) == 0 && !nr.Assume
		return good, &nr, out
	}
	if v.Kind == "race" {
		// The gates synchronise through a mutex, which would hide the race from the detector:
		// races are confirmed by free-running native runs of the same harness and witness under
		// the Go race detector (a pair of accesses with no happens-before path is reported
		// whatever the timing, as long as both accesses execute).
		c := caseOf("v", j, v)
		c.Obs = nil
		for try := 0; try < 3; try++ {
			_, out, _ := r.nativeReplay(j, []nativeCase{c}, nil, nil, true)
			if strings.Contains(out, "WARNING: DATA RACE") {
				nr := nativeResult{ID: "v", Panic: "DATA RACE reported by the Go race detector: " + raceSummary(out)}
				return true, &nr, out
			}
		}
		return false, nil, "race not reported by the native race detector in 3 runs"
	}
	res, out, _ := r.gatedRun(j, v, false)
	diverged := strings.Contains(out, "gate: DIVERGED")
	switch v.Kind {
	case "panic":
		if nr, ok := res["v"]; ok && nr.Panic != "" {
			return true, &nr, out
		}
		if strings.Contains(out, "panic:") && !strings.Contains(out, "test timed out") {
			nr := nativeResult{ID: "v", Panic: firstPanicLine(out)}
			return true, &nr, out
		}
		return false, nil, out
	case "deadlock":
		if strings.Contains(out, "test timed out") || strings.Contains(out, "all goroutines are asleep") {
			nr := nativeResult{ID: "v", Panic: "native run did not terminate under the replayed schedule"}
			return !diverged, &nr, out
		}
		return false, nil, out
	}
	nr, ok := res["v"]
	if !ok {
		return false, nil, out
	}
	return confirms(v, nr), &nr, out
}

// gatedRun instruments the files the trace mentions and runs the case under the gates.
func (r *propRun) gatedRun(j Job, v interp.Violation, withObs bool) (map[string]nativeResult, string, error) {
	dir, err := os.MkdirTemp(r.work, "gated")
	if err != nil {
		return nil, err.Error(), err
	}
	files := map[string]bool{}
	for _, ev := range v.W.Trace {
		f := strings.Fields(ev)
		if len(f) < 3 {
			continue
		}
		if i := strings.Index(f[1], ":"); i > 0 {
			files[f[1][:i]] = true
		}
	}
	extra := map[string]string{}
	for rel := range files {
		virt := filepath.Join(repoDir, rel)
		real := virt
		if o, ok := r.ld.overlay[virt]; ok {
			real = o
		}
		src, err := os.ReadFile(real)
		if err != nil {
			return nil, "gate instrumenter: " + err.Error(), err
		}
		out, err := instrumentFile(src, rel)
		if err != nil {
			return nil, "gate instrumenter: " + err.Error(), err
		}
		dst := filepath.Join(dir, strings.ReplaceAll(rel, "/", "__"))
		if err := os.WriteFile(dst, out, 0644); err != nil {
			return nil, err.Error(), err
		}
		extra[virt] = dst
	}
	tb, _ := json.Marshal(v.W.Trace)
	tf := filepath.Join(dir, "trace.json")
	os.WriteFile(tf, tb, 0644)
	c := caseOf("v", j, v)
	if !withObs {
		c.Obs = nil
	}
	return r.nativeReplay(j, []nativeCase{c}, []string{"ZZGATE_TRACE=" + tf}, extra, false)
}

// raceSummary extracts the repository frames of the first race report.
func raceSummary(out string) string {
	var fr []string
	in := false
	for _, l := range strings.Split(out, "\n") {
		if strings.Contains(l, "WARNING: DATA RACE") {
			in = true
			continue
		}
		if in && strings.HasPrefix(strings.TrimSpace(l), repoDir+"/") {
			fr = append(fr, strings.TrimSpace(l))
			if len(fr) >= 4 {
				break
			}
		}
		if in && strings.HasPrefix(l, "==================") && len(fr) > 0 {
			break
		}
	}
	return strings.Join(fr, " | ")
}

func firstPanicLine(out string) string {
	for _, l := range strings.Split(out, "\n") {
		if strings.HasPrefix(l, "panic:") {
			return l
		}
	}
	return "panic"
}

// materialize writes a file-system image of the engine (paths under /db) into a fresh
// native directory and returns it.
func (r *propRun) materialize(img map[string][]byte) (string, error) {
	dir, err := os.MkdirTemp(r.work, "image")
	if err != nil {
		return "", err
	}
	for name, data := range img {
		rel := strings.TrimPrefix(name, "/db/")
		if rel == name {
			return "", fmt.Errorf("image file outside the database directory: %s", name)
		}
		p := filepath.Join(dir, rel)
		os.MkdirAll(filepath.Dir(p), 0755)
		if err := os.WriteFile(p, data, 0644); err != nil {
			return "", err
		}
	}
	return dir, nil
}

// crashCase builds the native case for a counterexample (or cover witness) that lies in a
// recovery phase: the real recovery harness runs on the materialized crash image.
func (r *propRun) crashCase(id string, j Job, v interp.Violation) (nativeCase, bool) {
	c := caseOf(id, j, v)
	if v.Phase == 0 {
		return c, true // before any crash: an ordinary replay of the workload harness
	}
	if v.W.Image == nil {
		return c, false
	}
	dir, err := r.materialize(v.W.Image)
	if err != nil {
		return c, false
	}
	c.Dir = dir
	c.Phase = v.Phase
	return c, true
}

// confirmCrash replays a crash counterexample: the engine's file-system image at the crash
// (all bytes concrete and produced by the real encoders) is written to a directory and the
// real recovery code runs on it natively.
func (r *propRun) confirmCrash(j Job, v interp.Violation) (bool, *nativeResult, string) {
	c, ok := r.crashCase("v", j, v)
	if !ok {
		return false, nil, "no concrete crash image"
	}
	c.Obs = nil
	res, out, err := r.nativeReplay(j, []nativeCase{c}, nil, nil, false)
	if err != nil {
		return false, nil, out
	}
	nr, ok := res["v"]
	if !ok {
		return false, nil, out
	}
	return confirms(v, nr), &nr, out
}
