package main

import "gosym/interp"

// confirmGated / confirmCrash: native confirmation of schedule- and crash-dependent
// counterexamples (implemented in gated_replay.go once available).
func (r *propRun) confirmGated(j Job, v interp.Violation) (bool, *nativeResult, string) {
	return false, nil, "gated replay not available"
}

func (r *propRun) confirmCrash(j Job, v interp.Violation) (bool, *nativeResult, string) {
	return false, nil, "crash replay not available"
}
