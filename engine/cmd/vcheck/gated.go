package main

import (
	"fmt"
	"os"
	"path/filepath"
	"strings"

	"gosym/interp"
)

// confirmGated: native confirmation of schedule-dependent counterexamples (gated replay).
func (r *propRun) confirmGated(j Job, v interp.Violation) (bool, *nativeResult, string) {
	return false, nil, "gated replay not available"
}

// materialize writes a file-system image of the engine (paths under /db) into a fresh
// native directory and returns it.
func (r *propRun) materialize(img map[string][]byte) (string, error) {
	dir, err := os.MkdirTemp(r.work, "image")
	if err != nil {
		return "", err
	}
	for name, data := range img {
		rel := strings.TrimPrefix(name, "/db/")
		if rel == name {
			return "", fmt.Errorf("image file outside the database directory: %s", name)
		}
		p := filepath.Join(dir, rel)
		os.MkdirAll(filepath.Dir(p), 0755)
		if err := os.WriteFile(p, data, 0644); err != nil {
			return "", err
		}
	}
	return dir, nil
}

// crashCase builds the native case for a counterexample (or cover witness) that lies in a
// recovery phase: the real recovery harness runs on the materialized crash image.
func (r *propRun) crashCase(id string, j Job, v interp.Violation) (nativeCase, bool) {
	c := caseOf(id, j, v)
	if v.Phase == 0 {
		return c, true // before any crash: an ordinary replay of the workload harness
	}
	if v.W.Image == nil {
		return c, false
	}
	dir, err := r.materialize(v.W.Image)
	if err != nil {
		return c, false
	}
	c.Dir = dir
	c.Phase = v.Phase
	return c, true
}

// confirmCrash replays a crash counterexample: the engine's file-system image at the crash
// (all bytes concrete and produced by the real encoders) is written to a directory and the
// real recovery code runs on it natively.
func (r *propRun) confirmCrash(j Job, v interp.Violation) (bool, *nativeResult, string) {
	c, ok := r.crashCase("v", j, v)
	if !ok {
		return false, nil, "no concrete crash image"
	}
	c.Obs = nil
	res, out, err := r.nativeReplay(j, []nativeCase{c}, nil, nil, false)
	if err != nil {
		return false, nil, out
	}
	nr, ok := res["v"]
	if !ok {
		return false, nil, out
	}
	return confirms(v, nr), &nr, out
}
