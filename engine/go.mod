module gosym

go 1.24

require golang.org/x/tools v0.29.0

require (
	golang.org/x/mod v0.22.0 // indirect
	golang.org/x/sync v0.10.0 // indirect
)

require github.com/klauspost/compress v1.17.11
