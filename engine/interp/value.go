package interp

import (
	"fmt"
	"go/types"

	"golang.org/x/tools/go/ssa"

	"gosym/term"
)

// value representations (after x/tools go/ssa/interp):
//   *term.Term   bool and all integer types (width from the Go type)
//   Str          string: concrete length, symbolic bytes
//   []value      slice (Go slice semantics give aliasing/capacity for free)
//   array        array (value semantics, copied on load/store)
//   structure    struct (value semantics)
//   *value       pointer
//   iface        interface value
//   tuple        multiple results
//   *ssa.Function, *closure, *ssa.Builtin   functions
//   float64      concrete floats
//   *hmap        map
type value interface{}

type Str struct{ B []*term.Term }

type array []value
type structure []value
type tuple []value

type iface struct {
	t types.Type
	v value
}

type closure struct {
	Fn  *ssa.Function
	Env []value
}

type hmap struct {
	keys []value
	vals []value
	cell value // shadow address for the race monitor
}

func (m *Machine) zero(t types.Type) value {
	switch t := t.(type) {
	case *types.Basic:
		switch {
		case t.Kind() == types.UntypedNil:
			panic("untyped nil has no zero value")
		case t.Info()&types.IsBoolean != 0:
			return m.st.False
		case t.Info()&types.IsInteger != 0:
			return m.st.BV(intWidth(t), 0)
		case t.Info()&types.IsFloat != 0:
			return float64(0)
		case t.Info()&types.IsString != 0:
			return Str{}
		case t.Kind() == types.UnsafePointer:
			return (*value)(nil)
		}
	case *types.Pointer:
		return (*value)(nil)
	case *types.Array:
		a := make(array, t.Len())
		for i := range a {
			a[i] = m.zero(t.Elem())
		}
		return a
	case *types.Named:
		return m.zero(t.Underlying())
	case *types.Alias:
		return m.zero(types.Unalias(t))
	case *types.Interface:
		return iface{}
	case *types.Slice:
		return []value(nil)
	case *types.Struct:
		s := make(structure, t.NumFields())
		for i := range s {
			s[i] = m.zero(t.Field(i).Type())
		}
		return s
	case *types.Tuple:
		if t.Len() == 1 {
			return m.zero(t.At(0).Type())
		}
		s := make(tuple, t.Len())
		for i := range s {
			s[i] = m.zero(t.At(i).Type())
		}
		return s
	case *types.Chan:
		return (*chanVal)(nil)
	case *types.Map:
		return (*hmap)(nil)
	case *types.Signature:
		return (*ssa.Function)(nil)
	}
	panic(fmt.Sprintf("zero: unexpected type %T %v", t, t))
}

func intWidth(t *types.Basic) int {
	switch t.Kind() {
	case types.Int8, types.Uint8:
		return 8
	case types.Int16, types.Uint16:
		return 16
	case types.Int32, types.Uint32:
		return 32
	case types.Int, types.Uint, types.Int64, types.Uint64, types.Uintptr, types.UntypedInt, types.UntypedRune:
		return 64
	}
	panic("intWidth: " + t.String())
}

func isSigned(t *types.Basic) bool {
	return t.Info()&types.IsUnsigned == 0
}

func basicOf(t types.Type) *types.Basic {
	b, _ := t.Underlying().(*types.Basic)
	return b
}

// copyVal implements value semantics for aggregates.
func copyVal(v value) value {
	switch v := v.(type) {
	case array:
		a := make(array, len(v))
		for i := range v {
			a[i] = copyVal(v[i])
		}
		return a
	case structure:
		a := make(structure, len(v))
		for i := range v {
			a[i] = copyVal(v[i])
		}
		return a
	}
	return v
}

func (m *Machine) strConst(s string) Str {
	b := make([]*term.Term, len(s))
	for i := 0; i < len(s); i++ {
		b[i] = m.st.BV(8, uint64(s[i]))
	}
	return Str{b}
}

func (s Str) Concrete() (string, bool) {
	out := make([]byte, len(s.B))
	for i, t := range s.B {
		v, ok := t.ConstVal()
		if !ok {
			return "", false
		}
		out[i] = byte(v)
	}
	return string(out), true
}
