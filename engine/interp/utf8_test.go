package interp

import (
	"math/rand"
	"testing"
	"unicode/utf8"

	"gosym/term"
)

// decodeRune on concrete bytes must agree with utf8.DecodeRune (every first byte, random tails).
func TestDecodeRuneConcrete(t *testing.T) {
	m := &Machine{st: term.NewStore()}
	rnd := rand.New(rand.NewSource(1))
	for b0 := 0; b0 < 256; b0++ {
		for k := 0; k < 400; k++ {
			n := 1 + rnd.Intn(4)
			raw := make([]byte, n)
			raw[0] = byte(b0)
			for i := 1; i < n; i++ {
				if rnd.Intn(3) == 0 {
					raw[i] = byte(rnd.Intn(256))
				} else {
					raw[i] = byte(0x80 + rnd.Intn(0x40))
				}
			}
			ts := make([]*term.Term, n)
			for i := range raw {
				ts[i] = m.st.BV(8, uint64(raw[i]))
			}
			r, w := m.decodeRune(ts)
			wr, ww := utf8.DecodeRune(raw)
			v, ok := r.ConstVal()
			if !ok || rune(v) != wr || w != ww {
				t.Fatalf("bytes % x: engine (%x,%d) native (%x,%d)", raw, v, w, wr, ww)
			}
		}
	}
}
