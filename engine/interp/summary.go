package interp

import (
	"fmt"
	"strings"

	"golang.org/x/tools/go/ssa"

	"gosym/smt"
	"gosym/term"
)

// Pure-callee summaries.  A summarised function is NOT replaced: its real SSA is explored
// exhaustively once per distinct tuple of argument terms, pruning only with the callee's
// own branch conditions (never with the caller's path condition), and the returned values
// are merged into one ite term guarded by those conditions.  The summary is a function of
// the argument terms alone, so it is cached for all later paths of the worker.  A panic
// inside the callee becomes a guarded panic on which the call site forks.
var summarised = map[string]bool{
	"github.com/B1NARY-GR0UP/originium/types.CompareKeys": true,
	"github.com/B1NARY-GR0UP/originium/types.IsSameKey":   true,
	"github.com/B1NARY-GR0UP/originium/types.ParseTs":     true,
}

type summary struct {
	result   *term.Term
	panics   *term.Term
	panicMsg string
	paths    int
}

func argKey(sb *strings.Builder, v value) bool {
	switch x := v.(type) {
	case *term.Term:
		fmt.Fprintf(sb, "t%d,", x.ID)
	case Str:
		fmt.Fprintf(sb, "s%d[", len(x.B))
		for _, b := range x.B {
			fmt.Fprintf(sb, "%d,", b.ID)
		}
		sb.WriteString("]")
	default:
		return false
	}
	return true
}

// trySummary returns (value, true) when fn was answered from a summary.
func (m *Machine) trySummary(fn *ssa.Function, args []value) (value, bool) {
	if m.NoSummaries || m.inSummary || !summarised[fn.String()] {
		return nil, false
	}
	var sb strings.Builder
	sb.WriteString(fn.String())
	sb.WriteString("|")
	concrete := true
	for _, a := range args {
		if !argKey(&sb, a) {
			return nil, false
		}
		switch x := a.(type) {
		case *term.Term:
			concrete = concrete && x.IsConst()
		case Str:
			if _, ok := x.Concrete(); !ok {
				concrete = false
			}
		}
	}
	if concrete {
		return nil, false // runs without forking anyway
	}
	key := sb.String()
	s, ok := m.sumCache[key]
	if !ok {
		s = m.buildSummary(fn, args)
		if m.sumCache == nil {
			m.sumCache = map[string]*summary{}
		}
		m.sumCache[key] = s
		m.SummariesBuilt++
	}
	m.SummaryHits++
	if !s.panics.IsConst() || s.panics == m.st.True {
		if m.branch(s.panics) {
			panic(goPanic{s.panicMsg})
		}
	}
	return s.result, true
}

func (m *Machine) buildSummary(fn *ssa.Function, args []value) *summary {
	// save the caller's exploration state
	sPC, sPrefix, sTaken, sPend := m.pc, m.prefix, m.taken, m.pend
	sSteps := m.pathSteps
	var local [][]Decision
	m.pend = &local
	m.inSummary = true
	defer func() {
		m.pc, m.prefix, m.taken, m.pend = sPC, sPrefix, sTaken, sPend
		m.pathSteps = sSteps
		m.inSummary = false
		m.pcIdx, m.pcIdxLen, m.ivCache = nil, 0, nil
	}()
	type outcome struct {
		cond *term.Term
		res  *term.Term
	}
	var outs []outcome
	s := &summary{panics: m.st.False}
	work := [][]Decision{nil}
	for len(work) > 0 {
		p := work[len(work)-1]
		work = work[:len(work)-1]
		m.pc = nil
		m.prefix = p
		m.taken = nil
		m.pcIdx, m.pcIdxLen, m.ivCache = nil, 0, nil
		s.paths++
		func() {
			defer func() {
				if r := recover(); r != nil {
					switch r := r.(type) {
					case pathEnd:
					case goPanic:
						c := m.st.True
						for _, t := range m.pc {
							c = m.st.And(c, t)
						}
						if m.sol.Check(m.pc) != smt.Unsat {
							s.panics = m.st.Or(s.panics, c)
							s.panicMsg = r.msg
						}
					default:
						panic(r)
					}
				}
			}()
			res := m.callBody(fn, args)
			c := m.st.True
			for _, t := range m.pc {
				c = m.st.And(c, t)
			}
			outs = append(outs, outcome{c, res.(*term.Term)})
		}()
		work = append(work, local...)
		local = local[:0]
	}
	if len(outs) == 0 {
		s.result = m.zero(fn.Signature.Results().At(0).Type()).(*term.Term)
		return s
	}
	acc := outs[len(outs)-1].res
	for i := len(outs) - 2; i >= 0; i-- {
		acc = m.st.Ite(outs[i].cond, outs[i].res, acc)
	}
	s.result = acc
	return s
}
