package interp

import (
	"fmt"
	"go/types"
	"sort"
	"strings"

	"gosym/term"
)

// In-engine file system.  It survives "process restarts" (a new path phase) but not paths.

type fsFile struct {
	data   []value // byte terms
	synced int
}

type FS struct {
	dirs  map[string]bool
	files map[string]*fsFile
	Ops   int // mutating operations so far (create, write, fsync, rename, remove)
	OpLog []string
}

func newFS() *FS { return &FS{dirs: map[string]bool{}, files: map[string]*fsFile{}} }

type fileHandle struct {
	f      *fsFile
	name   string
	pos    int
	append bool
	closed bool
}

// nativeObj values answer interface method calls inside the engine.
type nativeObj interface {
	callMethod(m *Machine, name string, args []value) value
}

type dirEntry struct{ name string }

func (d *dirEntry) callMethod(m *Machine, name string, args []value) value {
	switch name {
	case "Name":
		return m.strConst(d.name)
	case "IsDir":
		return m.st.False
	}
	panic("dirEntry." + name)
}

type fileInfo struct{ size int }

func (d *fileInfo) callMethod(m *Machine, name string, args []value) value {
	switch name {
	case "Size":
		return m.st.BV(64, uint64(d.size))
	}
	panic("fileInfo." + name)
}

var nativeType types.Type = types.Typ[types.UnsafePointer]

func (m *Machine) errVal(msg string) value {
	// *errors.errorString{msg}
	for _, p := range m.prog.AllPackages() {
		if p.Pkg.Path() == "errors" {
			return m.call(p.Func("New"), []value{m.strConst(msg)})
		}
	}
	panic("no errors package")
}

func (m *Machine) fsOp(kind, name string) {
	m.fs.Ops++
	m.fs.OpLog = append(m.fs.OpLog, kind+" "+name)
	if m.ExploreCrash && m.crashes < m.MaxCrashes && (!m.ZoneOnly || m.records["zone"] == 1 || m.Phase > 0) {
		m.CrashPoints++
		if m.nextDecision(2, func(int) bool { return true }) == 1 {
			m.crashes++
			m.fs.Ops--
			m.crashOps = append(m.crashOps, m.fs.Ops)
			m.tearFiles()
			m.fs.OpLog = append(m.fs.OpLog[:len(m.fs.OpLog)-1], "CRASH before "+kind+" "+name)
			panic(crashSignal{})
		}
	}
}

type crashSignal struct{}

const (
	oWRONLY = 0x1
	oRDWR   = 0x2
	oAPPEND = 0x400
	oCREATE = 0x40
	oTRUNC  = 0x200
)

func (m *Machine) fsIntrinsics() {
	type in = func(m *Machine, fr *frame, args []value) value
	nilErr := iface{}
	cint := func(v value) int {
		c, ok := v.(*term.Term).ConstVal()
		if !ok {
			panic("fs: symbolic integer argument")
		}
		return int(int64(c))
	}
	handle := func(v value) *fileHandle {
		p := v.(*value)
		if p == nil {
			panic(goPanic{"nil *os.File"})
		}
		return (*p).(*fileHandle)
	}
	open := func(name string, flag int) value {
		f := m.fs.files[name]
		if f == nil {
			if flag&oCREATE == 0 {
				return tuple{(*value)(nil), m.errVal("open " + name + ": no such file or directory")}
			}
			m.fsOp("create", name)
			f = &fsFile{}
			m.fs.files[name] = f
		} else if flag&oTRUNC != 0 && len(f.data) > 0 {
			m.fsOp("truncate", name)
			f.data = nil
			f.synced = 0
		}
		var h value = &fileHandle{f: f, name: name, append: flag&oAPPEND != 0}
		return tuple{&h, nilErr}
	}
	add := map[string]in{
		"os.MkdirAll": func(m *Machine, fr *frame, a []value) value {
			m.fs.dirs[strArg(a[0])] = true
			return nilErr
		},
		"os.OpenFile": func(m *Machine, fr *frame, a []value) value { return open(strArg(a[0]), cint(a[1])) },
		"os.Open":     func(m *Machine, fr *frame, a []value) value { return open(strArg(a[0]), 0) },
		"os.Remove": func(m *Machine, fr *frame, a []value) value {
			name := strArg(a[0])
			if m.fs.files[name] == nil {
				return m.errVal("remove " + name + ": no such file or directory")
			}
			m.fsOp("remove", name)
			delete(m.fs.files, name)
			return nilErr
		},
		"os.Rename": func(m *Machine, fr *frame, a []value) value {
			from, to := strArg(a[0]), strArg(a[1])
			f := m.fs.files[from]
			if f == nil {
				return m.errVal("rename " + from + ": no such file or directory")
			}
			m.fsOp("rename", from+" -> "+to)
			delete(m.fs.files, from)
			m.fs.files[to] = f // atomically replaces an existing target, as rename(2) does
			return nilErr
		},
		"os.Stat": func(m *Machine, fr *frame, a []value) value {
			name := strArg(a[0])
			f := m.fs.files[name]
			if f == nil {
				return tuple{iface{}, iface{t: nativeType, v: &notExist{}}}
			}
			return tuple{iface{t: nativeType, v: &fileInfo{size: len(f.data)}}, nilErr}
		},
		"os.IsNotExist": func(m *Machine, fr *frame, a []value) value {
			e := a[0].(iface)
			_, ok := e.v.(*notExist)
			return m.st.Bool(ok)
		},
		"os.ReadDir": func(m *Machine, fr *frame, a []value) value {
			dir := strings.TrimSuffix(strArg(a[0]), "/") + "/"
			var names []string
			for n := range m.fs.files {
				if strings.HasPrefix(n, dir) && !strings.Contains(n[len(dir):], "/") {
					names = append(names, n[len(dir):])
				}
			}
			sort.Strings(names)
			out := make([]value, len(names))
			for i, n := range names {
				out[i] = iface{t: nativeType, v: &dirEntry{name: n}}
			}
			return tuple{out, nilErr}
		},
		"(*os.File).Write": func(m *Machine, fr *frame, a []value) value {
			h := handle(a[0])
			p := a[1].([]value)
			if h.closed {
				return tuple{m.st.BV(64, 0), m.errVal("file already closed")}
			}
			m.fsOp("write", h.name)
			if h.append {
				h.pos = len(h.f.data)
			}
			for len(h.f.data) < h.pos {
				h.f.data = append(h.f.data, m.st.BV(8, 0))
			}
			for i, b := range p {
				if h.pos+i < len(h.f.data) {
					h.f.data[h.pos+i] = b
				} else {
					h.f.data = append(h.f.data, b)
				}
			}
			h.pos += len(p)
			return tuple{m.st.BV(64, uint64(len(p))), nilErr}
		},
		"(*os.File).Read": func(m *Machine, fr *frame, a []value) value {
			h := handle(a[0])
			p := a[1].([]value)
			if h.pos >= len(h.f.data) {
				if len(p) == 0 {
					return tuple{m.st.BV(64, 0), nilErr}
				}
				return tuple{m.st.BV(64, 0), m.pkgVar("io", "EOF")}
			}
			n := copy(p, h.f.data[h.pos:])
			h.pos += n
			return tuple{m.st.BV(64, uint64(n)), nilErr}
		},
		"(*os.File).Seek": func(m *Machine, fr *frame, a []value) value {
			h := handle(a[0])
			off, whence := cint(a[1]), cint(a[2])
			var np int
			switch whence {
			case 0:
				np = off
			case 1:
				np = h.pos + off
			case 2:
				np = len(h.f.data) + off
			}
			if np < 0 {
				return tuple{m.st.BV(64, 0), m.errVal("seek: invalid argument")}
			}
			h.pos = np
			return tuple{m.st.BV(64, uint64(np)), nilErr}
		},
		"(*os.File).Sync": func(m *Machine, fr *frame, a []value) value {
			h := handle(a[0])
			m.fsOp("fsync", h.name)
			h.f.synced = len(h.f.data)
			return nilErr
		},
		"(*os.File).Close": func(m *Machine, fr *frame, a []value) value {
			h := handle(a[0])
			if h.closed {
				return m.errVal("close: file already closed")
			}
			h.closed = true
			return nilErr
		},
	}
	for k, v := range add {
		m.intrinsics[k] = v
	}
}

type notExist struct{}

func (n *notExist) callMethod(m *Machine, name string, args []value) value {
	if name == "Error" {
		return m.strConst("file does not exist")
	}
	panic("notExist." + name)
}

// Listing returns the directory content for reporting.
func (fs *FS) Listing() string {
	var names []string
	for n, f := range fs.files {
		names = append(names, fmt.Sprintf("%s(%d/%d)", n, f.synced, len(f.data)))
	}
	sort.Strings(names)
	return strings.Join(names, " ")
}

// tearFiles applies the C14 storage model at a crash: every file with bytes beyond its last
// fsync keeps an arbitrary prefix between its synced length and its written length (one
// choice point per such file, every length explored).
func (m *Machine) tearFiles() {
	if !m.ExploreTears {
		return
	}
	var names []string
	for n, f := range m.fs.files {
		if f.synced < len(f.data) {
			names = append(names, n)
		}
	}
	sort.Strings(names)
	for _, n := range names {
		f := m.fs.files[n]
		k := len(f.data) - f.synced
		pick := m.nextDecision(k+1, func(int) bool { return true })
		keep := len(f.data) - pick // pick 0 = nothing lost
		if m.tears == nil {
			m.tears = map[string]int{}
		}
		m.tears[n] = keep
		f.data = f.data[:keep:keep]
		m.fs.OpLog = append(m.fs.OpLog, fmt.Sprintf("TEAR %s to %d bytes (synced %d)", n, keep, f.synced))
	}
}

// Image returns the concrete content of every file, or ok=false if a byte is symbolic.
func (fs *FS) Image() (map[string][]byte, bool) {
	out := map[string][]byte{}
	for n, f := range fs.files {
		b := make([]byte, len(f.data))
		for i, t := range f.data {
			v, ok := t.(*term.Term).ConstVal()
			if !ok {
				return nil, false
			}
			b[i] = byte(v)
		}
		out[n] = b
	}
	return out, true
}
