package interp

import (
	"fmt"
	"math"
	"time"

	"gosym/term"
)

// Remaining boundary models for whole-engine runs: clock, rand, math, atomics, RWMutex,
// frugal (thrift binary of types.Entry), Sscanf, bytealg leaves.

// clockSec: unix second of clock tick k (2024-01-01 00:00:00 UTC + k, or + 0 with SameSecond).
func (m *Machine) clockSec(k uint64) int64 {
	const base = 1704067200
	if m.SameSecond {
		return base
	}
	return base + int64(k)
}

type filterSummary struct{ members []Str }

type opaque struct{ tag string }

func (o *opaque) callMethod(m *Machine, name string, args []value) value {
	panic("opaque " + o.tag + "." + name)
}

func (m *Machine) sysIntrinsics() {
	type in = func(m *Machine, fr *frame, args []value) value
	nilErr := iface{}
	cst := func(v value) uint64 {
		c, ok := v.(*term.Term).ConstVal()
		if !ok {
			panic("sysenv: symbolic argument where a concrete one is required")
		}
		return c
	}
	mu := func(p *value) *mutexState {
		s := m.rt.mutexes[p]
		if s == nil {
			s = &mutexState{}
			m.rt.mutexes[p] = s
		}
		return s
	}
	entryFields := func(v value) structure {
		p := v.(iface).v.(*value)
		return (*p).(structure)
	}
	be := func(t *term.Term) []value { // big endian bytes
		n := t.W / 8
		out := make([]value, n)
		for i := 0; i < n; i++ {
			out[n-1-i] = m.st.Extract(t, 8*i+7, 8*i)
		}
		return out
	}
	fromBE := func(bs []value) *term.Term {
		r := bs[0].(*term.Term)
		for _, b := range bs[1:] {
			r = m.st.Concat(r, b.(*term.Term))
		}
		return r
	}
	encodeEntry := func(e structure) []value {
		var out []value
		k := e[0].(Str)
		out = append(out, m.st.BV(8, 11), m.st.BV(8, 0), m.st.BV(8, 1))
		out = append(out, be(m.st.BV(32, uint64(len(k.B))))...)
		for _, b := range k.B {
			out = append(out, b)
		}
		v, _ := e[1].([]value)
		out = append(out, m.st.BV(8, 11), m.st.BV(8, 0), m.st.BV(8, 2))
		out = append(out, be(m.st.BV(32, uint64(len(v))))...)
		out = append(out, v...)
		out = append(out, m.st.BV(8, 2), m.st.BV(8, 0), m.st.BV(8, 3), m.st.Ite(e[2].(*term.Term), m.st.BV(8, 1), m.st.BV(8, 0)))
		out = append(out, m.st.BV(8, 10), m.st.BV(8, 0), m.st.BV(8, 4))
		out = append(out, be(e[3].(*term.Term))...)
		out = append(out, m.st.BV(8, 0))
		return out
	}
	add := map[string]in{
		// clock: a counter; every time.Now is one tick.  A tick is one second (default) or,
		// with SameSecond, all ticks fall into one second and only the nanosecond part (3 per
		// tick: 3, 6, 9, 12, ...) distinguishes them.
		"time.Now": func(m *Machine, fr *frame, a []value) value {
			m.clock++
			if m.inWalCreate {
				m.walClock = append(m.walClock, [2]int64{m.clockSec(uint64(m.clock)), int64(m.clock) * 3})
			}
			return structure{m.st.BV(64, 0), m.st.BV(64, uint64(m.clock)), (*value)(nil)}
		},
		"github.com/B1NARY-GR0UP/originium/wal.Create": func(m *Machine, fr *frame, a []value) value {
			m.inWalCreate = true
			defer func() { m.inWalCreate = false }()
			return m.callRealByName("github.com/B1NARY-GR0UP/originium/wal.Create", a)
		},
		"(time.Time).Format": func(m *Machine, fr *frame, a []value) value {
			k := cst(a[0].(structure)[1])
			return m.strConst(time.Unix(m.clockSec(k), 0).UTC().Format(strArg(a[1])))
		},
		"(time.Time).Nanosecond": func(m *Machine, fr *frame, a []value) value {
			k := cst(a[0].(structure)[1])
			return m.st.BV(64, k*3)
		},
		"(time.Time).Unix":     func(m *Machine, fr *frame, a []value) value { return a[0].(structure)[1] },
		"(time.Time).UnixNano": func(m *Machine, fr *frame, a []value) value { return a[0].(structure)[1] },
		"time.Since":           func(m *Machine, fr *frame, a []value) value { return m.st.BV(64, 0) },

		"math/rand.NewSource": func(m *Machine, fr *frame, a []value) value {
			return iface{t: nativeType, v: &opaque{"rand.Source"}}
		},
		"math/rand.New": func(m *Machine, fr *frame, a []value) value {
			var v value = &opaque{"rand.Rand"}
			return &v
		},
		"(*math/rand.Rand).Float64": func(m *Machine, fr *frame, a []value) value {
			if m.ExploreCoins {
				if m.nextDecision(2, func(int) bool { return true }) == 1 {
					m.coins = append(m.coins, 1)
					return float64(0)
				}
			}
			m.coins = append(m.coins, 0)
			return float64(0.999)
		},
		"math.Log":   func(m *Machine, fr *frame, a []value) value { return math.Log(a[0].(float64)) },
		"math.Pow":   func(m *Machine, fr *frame, a []value) value { return math.Pow(a[0].(float64), a[1].(float64)) },
		"math.Ceil":  func(m *Machine, fr *frame, a []value) value { return math.Ceil(a[0].(float64)) },
		"math.Round": func(m *Machine, fr *frame, a []value) value { return math.Round(a[0].(float64)) },

		"sync/atomic.LoadUint32": func(m *Machine, fr *frame, a []value) value {
			m.acquire(a[0].(*value))
			m.event("aload")
			return *a[0].(*value)
		},
		"sync/atomic.StoreUint32": func(m *Machine, fr *frame, a []value) value {
			*a[0].(*value) = a[1]
			m.release(a[0].(*value))
			m.event("astore")
			return nil
		},
		// sync.RWMutex with Go's writer preference: a pending Lock blocks new RLocks (so a
		// recursive read lock deadlocks when a writer arrives in between, as in the real runtime)
		"(*sync.RWMutex).Lock": func(m *Machine, fr *frame, a []value) value {
			s := mu(a[0].(*value))
			s.pendingW++
			m.block(func() bool { return !s.locked && s.readers == 0 })
			s.pendingW--
			s.locked = true
			m.acquire(s)
			m.acquire(&s.readers)
			m.event("lock")
			m.preemptPoint()
			return nil
		},
		"(*sync.RWMutex).Unlock": func(m *Machine, fr *frame, a []value) value {
			m.release(mu(a[0].(*value)))
			mu(a[0].(*value)).locked = false
			m.event("unlock")
			m.preemptPoint()
			return nil
		},
		"(*sync.RWMutex).RLock": func(m *Machine, fr *frame, a []value) value {
			s := mu(a[0].(*value))
			m.block(func() bool { return !s.locked && s.pendingW == 0 })
			s.readers++
			m.acquire(s)
			m.event("rlock")
			m.preemptPoint()
			return nil
		},
		"(*sync.RWMutex).RUnlock": func(m *Machine, fr *frame, a []value) value {
			m.release(&mu(a[0].(*value)).readers)
			mu(a[0].(*value)).readers--
			m.event("runlock")
			return nil
		},

		"github.com/cloudwego/frugal.EncodedSize": func(m *Machine, fr *frame, a []value) value {
			return m.st.BV(64, uint64(len(encodeEntry(entryFields(a[0])))))
		},
		"github.com/cloudwego/frugal.EncodeObject": func(m *Machine, fr *frame, a []value) value {
			buf := a[0].([]value)
			enc := encodeEntry(entryFields(a[2]))
			copy(buf, enc)
			return tuple{m.st.BV(64, uint64(len(enc))), nilErr}
		},
		"github.com/cloudwego/frugal.DecodeObject": func(m *Machine, fr *frame, a []value) value {
			buf := a[0].([]value)
			e := entryFields(a[1])
			pos := 0
			need := func(n int) bool { return pos+n <= len(buf) }
			bad := func() value { return tuple{m.st.BV(64, 0), m.errVal("frugal: truncated or malformed")} }
			for {
				if !need(1) {
					return bad()
				}
				ft := cst(buf[pos])
				pos++
				if ft == 0 {
					break
				}
				if !need(2) {
					return bad()
				}
				id := cst(buf[pos+1])
				pos += 2
				switch ft {
				case 11:
					if !need(4) {
						return bad()
					}
					n := int(cst(fromBE(buf[pos : pos+4])))
					pos += 4
					if !need(n) {
						return bad()
					}
					if id == 1 {
						bs := make([]*term.Term, n)
						for i := range bs {
							bs[i] = buf[pos+i].(*term.Term)
						}
						e[0] = Str{bs}
					} else {
						e[1] = append([]value{}, buf[pos:pos+n]...)
					}
					pos += n
				case 2:
					if !need(1) {
						return bad()
					}
					e[2] = m.st.Eq(buf[pos].(*term.Term), m.st.BV(8, 1))
					pos++
				case 10:
					if !need(8) {
						return bad()
					}
					e[3] = fromBE(buf[pos : pos+8])
					pos += 8
				default:
					return bad()
				}
			}
			return tuple{m.st.BV(64, uint64(pos)), nilErr}
		},
		// assume/guarantee summary of the bloom filter (guarantee = C16): members are never
		// denied, non-members get an arbitrary answer.
		"github.com/B1NARY-GR0UP/originium/pkg/filter.Build": func(m *Machine, fr *frame, a []value) value {
			if !m.FilterSummary {
				return m.callReal("github.com/B1NARY-GR0UP/originium/pkg/filter", "Build", a)
			}
			fs := &filterSummary{}
			if len(a[0].([]value)) == 0 {
				panic(goPanic{"panic: invalid parameters (filter.New(0) via filter.Build of no entries)"})
			}
			for _, e := range a[0].([]value) {
				key := e.(structure)[0].(Str)
				// user key = key[:LastIndex(key,"@")]: run the real ParseKey
				uk := m.callReal("github.com/B1NARY-GR0UP/originium/types", "ParseKey", []value{key}).(Str)
				fs.members = append(fs.members, uk)
			}
			var v value = structure{fs, []value(nil)}
			return &v
		},
		"(*github.com/B1NARY-GR0UP/originium/pkg/filter.Filter).Contains": func(m *Machine, fr *frame, a []value) value {
			st := (*a[0].(*value)).(structure)
			fs, ok := st[0].(*filterSummary)
			if !ok {
				return m.callRealByName("(*github.com/B1NARY-GR0UP/originium/pkg/filter.Filter).Contains", a)
			}
			key := a[1].(Str)
			r := m.st.False
			for _, mem := range fs.members {
				r = m.st.Or(r, m.strEq(key, mem))
			}
			m.nsym++
			fp := m.sym(fmt.Sprintf("bloomfp%d", m.nsym), 0)
			return m.st.Or(r, fp)
		},
		// murmur3-32 (third-party): the real SSA always runs (so the digest's state is real and
		// concrete inputs hash exactly); the bytes written since the last Reset are logged, and a
		// *symbolic* Sum32 result is abstracted to UF_n(seed, b0..bn-1): "a deterministic function
		// of the seed and the bytes written since the last Reset".
		"(*github.com/spaolacci/murmur3.digest).Write": func(m *Machine, fr *frame, a []value) value {
			res := m.callRealByName("(*github.com/spaolacci/murmur3.digest).Write", a)
			if m.hashLogs == nil {
				m.hashLogs = map[*value][]*term.Term{}
			}
			p := a[0].(*value)
			for _, b := range a[1].([]value) {
				m.hashLogs[p] = append(m.hashLogs[p], b.(*term.Term))
			}
			return res
		},
		"(*github.com/spaolacci/murmur3.digest).Reset": func(m *Machine, fr *frame, a []value) value {
			res := m.callRealByName("(*github.com/spaolacci/murmur3.digest).Reset", a)
			delete(m.hashLogs, a[0].(*value))
			return res
		},
		"(*github.com/spaolacci/murmur3.digest32).Sum32": func(m *Machine, fr *frame, a []value) value {
			res := m.callRealByName("(*github.com/spaolacci/murmur3.digest32).Sum32", a).(*term.Term)
			if res.IsConst() {
				return res
			}
			p := a[0].(*value)
			d32 := (*p).(structure)
			dp := &d32[0]
			seed := d32[0].(structure)[3].(*term.Term)
			args := append([]*term.Term{seed}, m.hashLogs[dp]...)
			return m.st.App(fmt.Sprintf("murmur3_32_n%d", len(args)-1), 32, args)
		},
		// errors.Is for the error values of this repository (errors.New sentinels, no wrapping):
		// identity of the dynamic values.  Unwrap chains are not modelled.
		"errors.Is": func(m *Machine, fr *frame, a []value) value {
			e, t := a[0].(iface), a[1].(iface)
			if e.t == nil || t.t == nil {
				return m.st.Bool(e.t == nil && t.t == nil)
			}
			return m.equal(nil, e, t)
		},
		"fmt.Sscanf": func(m *Machine, fr *frame, a []value) value {
			s, format := strArg(a[0]), strArg(a[1])
			ptrs := a[2].([]value)
			nat := make([]any, len(ptrs))
			ints := make([]int, len(ptrs))
			for i := range ptrs {
				nat[i] = &ints[i]
			}
			n, err := fmt.Sscanf(s, format, nat...)
			for i, p := range ptrs {
				*p.(iface).v.(*value) = m.st.BV(64, uint64(int64(ints[i])))
			}
			if err != nil {
				return tuple{m.st.BV(64, uint64(n)), m.errVal(err.Error())}
			}
			return tuple{m.st.BV(64, uint64(n)), nilErr}
		},
		"internal/bytealg.IndexByteString": func(m *Machine, fr *frame, a []value) value {
			s := a[0].(Str)
			c := a[1].(*term.Term)
			r := m.st.BV(64, ^uint64(0))
			for i := len(s.B) - 1; i >= 0; i-- {
				r = m.st.Ite(m.st.Eq(s.B[i], c), m.st.BV(64, uint64(i)), r)
			}
			return r
		},
		"internal/bytealg.CountString": func(m *Machine, fr *frame, a []value) value {
			s := a[0].(Str)
			c := a[1].(*term.Term)
			r := m.st.BV(64, 0)
			for i := range s.B {
				r = m.st.Bin(term.OpAdd, r, m.st.Ite(m.st.Eq(s.B[i], c), m.st.BV(64, 1), m.st.BV(64, 0)))
			}
			return r
		},
	}
	for k, v := range add {
		m.intrinsics[k] = v
	}
}
