package interp

import (
	"fmt"

	"golang.org/x/tools/go/ssa"
)

// Happens-before race monitor (FastTrack-style) over the interpreter's loads and stores.

type vclock []int

func (v vclock) get(i int) int {
	if i < len(v) {
		return v[i]
	}
	return 0
}

func (v *vclock) set(i, c int) {
	for len(*v) <= i {
		*v = append(*v, 0)
	}
	(*v)[i] = c
}

func (v *vclock) join(o vclock) {
	for i, c := range o {
		if c > v.get(i) {
			v.set(i, c)
		}
	}
}

func (v vclock) copy() vclock { return append(vclock(nil), v...) }

type shadow struct {
	wG, wC int
	wSite  string
	reads  map[int]int
	rSite  map[int]string
}

type raceState struct {
	vcs    map[int]*vclock // per goroutine
	shadow map[*value]*shadow
	syncVC map[interface{}]*vclock // mutexes, wait groups, atomics, pool objects
	Races  []string
	seen   map[string]bool
}

func (m *Machine) raceReset() {
	m.race = &raceState{vcs: map[int]*vclock{}, shadow: map[*value]*shadow{}, syncVC: map[interface{}]*vclock{}, seen: map[string]bool{}}
	v := vclock{1}
	m.race.vcs[0] = &v
}

func (m *Machine) curVC() *vclock {
	g := m.rt.cur.id
	v := m.race.vcs[g]
	if v == nil {
		nv := vclock{}
		nv.set(g, 1)
		v = &nv
		m.race.vcs[g] = v
	}
	return v
}

func site(fr *frame, in ssa.Instruction) string {
	if fr == nil || in == nil {
		return "?"
	}
	pos := fr.fn.Prog.Fset.Position(in.Pos())
	return fmt.Sprintf("%s (%s:%d)", fr.fn.String(), pos.Filename, pos.Line)
}

func (m *Machine) reportRace(kind string, a, b string) {
	key := kind + "|" + a + "|" + b
	if m.race.seen[key] {
		return
	}
	m.race.seen[key] = true
	m.race.Races = append(m.race.Races, fmt.Sprintf("%s: %s  <->  %s", kind, a, b))
}

func (m *Machine) raceRead(p *value, where string) {
	if !m.DetectRaces || p == nil {
		return
	}
	g := m.rt.cur.id
	vc := m.curVC()
	s := m.race.shadow[p]
	if s == nil {
		s = &shadow{wG: -1}
		m.race.shadow[p] = s
	}
	if s.wG >= 0 && s.wG != g && s.wC > vc.get(s.wG) {
		m.reportRace("write-read", s.wSite, where)
	}
	if s.reads == nil {
		s.reads = map[int]int{}
		s.rSite = map[int]string{}
	}
	s.reads[g] = vc.get(g)
	s.rSite[g] = where
}

func (m *Machine) raceWrite(p *value, where string) {
	if !m.DetectRaces || p == nil {
		return
	}
	g := m.rt.cur.id
	vc := m.curVC()
	s := m.race.shadow[p]
	if s == nil {
		s = &shadow{wG: -1}
		m.race.shadow[p] = s
	}
	if s.wG >= 0 && s.wG != g && s.wC > vc.get(s.wG) {
		m.reportRace("write-write", s.wSite, where)
	}
	for t, c := range s.reads {
		if t != g && c > vc.get(t) {
			m.reportRace("read-write", s.rSite[t], where)
		}
	}
	s.wG, s.wC, s.wSite = g, vc.get(g), where
	s.reads, s.rSite = nil, nil
}

// aggregate accesses touch every element cell
func (m *Machine) raceAccess(p *value, write bool, where string) {
	if !m.DetectRaces || p == nil {
		return
	}
	if write {
		m.raceWrite(p, where)
	} else {
		m.raceRead(p, where)
	}
	switch v := (*p).(type) {
	case structure:
		for i := range v {
			m.raceAccess(&v[i], write, where)
		}
	case array:
		for i := range v {
			m.raceAccess(&v[i], write, where)
		}
	}
}

// release: publish the current goroutine's clock into a sync object, then tick.
func (m *Machine) release(obj interface{}) {
	if !m.DetectRaces {
		return
	}
	vc := m.curVC()
	o := m.race.syncVC[obj]
	if o == nil {
		o = &vclock{}
		m.race.syncVC[obj] = o
	}
	o.join(*vc)
	g := m.rt.cur.id
	vc.set(g, vc.get(g)+1)
}

// acquire: learn everything published into the sync object.
func (m *Machine) acquire(obj interface{}) {
	if !m.DetectRaces {
		return
	}
	if o := m.race.syncVC[obj]; o != nil {
		m.curVC().join(*o)
	}
}

// fork: child starts with the parent's knowledge.
func (m *Machine) raceFork(child int) {
	if !m.DetectRaces {
		return
	}
	vc := m.curVC()
	nv := vc.copy()
	nv.set(child, 1)
	m.race.vcs[child] = &nv
	g := m.rt.cur.id
	vc.set(g, vc.get(g)+1)
}
