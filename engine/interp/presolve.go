package interp

import "gosym/term"

// Pre-solver: decides a condition from (a) syntactic membership of the condition or its
// negation in the path condition and (b) unsigned interval evaluation under variable
// bounds collected from path-condition atoms of the form x<=c, c<=x, x<c, c<x, x==c.
// Sound but incomplete; anything undecided goes to the SMT solver.

type ival struct{ lo, hi uint64 }

func full(w int) ival {
	if w >= 64 {
		return ival{0, ^uint64(0)}
	}
	return ival{0, (uint64(1) << uint(w)) - 1}
}

func (m *Machine) pcSet() map[*term.Term]bool {
	if m.pcIdx == nil || m.pcIdxLen > len(m.pc) {
		m.pcIdx = map[*term.Term]bool{}
		m.bounds = map[*term.Term]ival{}
		m.pcIdxLen = 0
	}
	for ; m.pcIdxLen < len(m.pc); m.pcIdxLen++ {
		c := m.pc[m.pcIdxLen]
		m.addFact(c)
	}
	return m.pcIdx
}

func (m *Machine) addFact(c *term.Term) {
	m.pcIdx[c] = true
	switch c.Op {
	case term.OpAnd:
		m.addFact(c.Args[0])
		m.addFact(c.Args[1])
		return
	case term.OpNot:
		in := c.Args[0]
		if in.Op == term.OpOr { // not(a or b) = not a and not b
			m.addFact(m.st.Not(in.Args[0]))
			m.addFact(m.st.Not(in.Args[1]))
			return
		}
		// not(a < b)  => b <= a ; not(a <= b) => b < a
		switch in.Op {
		case term.OpUlt:
			m.bound(in.Args[1], in.Args[0], false)
		case term.OpUle:
			m.bound(in.Args[1], in.Args[0], true)
		}
		return
	case term.OpUlt:
		m.bound(c.Args[0], c.Args[1], true)
	case term.OpUle:
		m.bound(c.Args[0], c.Args[1], false)
	case term.OpEq:
		a, b := c.Args[0], c.Args[1]
		if v, ok := a.ConstVal(); ok && b.W > 0 {
			m.setBound(b, ival{v, v})
		}
		if v, ok := b.ConstVal(); ok && a.W > 0 {
			m.setBound(a, ival{v, v})
		}
	}
}

// bound records a <(=) b (unsigned) when one side is constant.
func (m *Machine) bound(a, b *term.Term, strict bool) {
	if v, ok := b.ConstVal(); ok {
		hi := v
		if strict {
			if v == 0 {
				return
			}
			hi = v - 1
		}
		cur := m.interval(a)
		if hi < cur.hi {
			cur.hi = hi
		}
		m.setBound(a, cur)
	}
	if v, ok := a.ConstVal(); ok {
		lo := v
		if strict {
			lo = v + 1
		}
		cur := m.interval(b)
		if lo > cur.lo {
			cur.lo = lo
		}
		m.setBound(b, cur)
	}
}

func (m *Machine) setBound(t *term.Term, iv ival) {
	m.bounds[t] = iv
	m.ivCache = nil
}

func (m *Machine) interval(t *term.Term) ival {
	if t.W == 0 {
		return ival{0, 1}
	}
	if v, ok := t.ConstVal(); ok {
		return ival{v, v}
	}
	if b, ok := m.bounds[t]; ok {
		return b
	}
	if m.ivCache == nil {
		m.ivCache = map[*term.Term]ival{}
	}
	if b, ok := m.ivCache[t]; ok {
		return b
	}
	r := full(t.W)
	switch t.Op {
	case term.OpZext:
		r = m.interval(t.Args[0])
	case term.OpAdd:
		a, b := m.interval(t.Args[0]), m.interval(t.Args[1])
		lo, hi := a.lo+b.lo, a.hi+b.hi
		if hi >= a.hi && hi <= full(t.W).hi && lo >= a.lo { // no wrap
			r = ival{lo, hi}
		}
	case term.OpSub:
		a, b := m.interval(t.Args[0]), m.interval(t.Args[1])
		if a.lo >= b.hi { // no wrap
			r = ival{a.lo - b.hi, a.hi - b.lo}
		}
	case term.OpMul:
		a, b := m.interval(t.Args[0]), m.interval(t.Args[1])
		if a.hi == 0 || b.hi <= full(t.W).hi/maxu(a.hi, 1) {
			r = ival{a.lo * b.lo, a.hi * b.hi}
		}
	case term.OpUrem:
		b := m.interval(t.Args[1])
		if b.lo > 0 {
			r = ival{0, b.hi - 1}
		}
	case term.OpSrem:
		// both operands known non-negative: same as urem
		a, b := m.interval(t.Args[0]), m.interval(t.Args[1])
		top := uint64(1) << uint(t.W-1)
		if a.hi < top && b.hi < top && b.lo > 0 {
			r = ival{0, b.hi - 1}
		}
	case term.OpConcat:
		// zero high part: value of the low part
		if v, ok := t.Args[0].ConstVal(); ok && v == 0 {
			r = m.interval(t.Args[1])
		}
	case term.OpIte:
		a, b := m.interval(t.Args[1]), m.interval(t.Args[2])
		r = ival{minu(a.lo, b.lo), maxu(a.hi, b.hi)}
	case term.OpExtract:
		a := m.interval(t.Args[0])
		if t.Lo == 0 && a.hi <= full(t.W).hi {
			r = a
		}
	case term.OpBvAnd:
		a, b := m.interval(t.Args[0]), m.interval(t.Args[1])
		r = ival{0, minu(a.hi, b.hi)}
	}
	m.ivCache[t] = r
	return r
}

func minu(a, b uint64) uint64 {
	if a < b {
		return a
	}
	return b
}
func maxu(a, b uint64) uint64 {
	if a > b {
		return a
	}
	return b
}

// presolve returns (value, decided).
func (m *Machine) presolve(c *term.Term) (bool, bool) {
	set := m.pcSet()
	if set[c] {
		return true, true
	}
	if set[m.st.Not(c)] {
		return false, true
	}
	switch c.Op {
	case term.OpNot:
		v, ok := m.presolve(c.Args[0])
		return !v, ok
	case term.OpAnd:
		v1, ok1 := m.presolve(c.Args[0])
		v2, ok2 := m.presolve(c.Args[1])
		if (ok1 && !v1) || (ok2 && !v2) {
			return false, true
		}
		if ok1 && ok2 {
			return true, true
		}
	case term.OpOr:
		v1, ok1 := m.presolve(c.Args[0])
		v2, ok2 := m.presolve(c.Args[1])
		if (ok1 && v1) || (ok2 && v2) {
			return true, true
		}
		if ok1 && ok2 {
			return false, true
		}
	case term.OpUlt:
		a, b := m.interval(c.Args[0]), m.interval(c.Args[1])
		if a.hi < b.lo {
			return true, true
		}
		if a.lo >= b.hi {
			return false, true
		}
	case term.OpUle:
		a, b := m.interval(c.Args[0]), m.interval(c.Args[1])
		if a.hi <= b.lo {
			return true, true
		}
		if a.lo > b.hi {
			return false, true
		}
	case term.OpEq:
		if c.Args[0].W > 0 {
			a, b := m.interval(c.Args[0]), m.interval(c.Args[1])
			if a.hi < b.lo || b.hi < a.lo {
				return false, true
			}
			if a.lo == a.hi && b.lo == b.hi && a.lo == b.lo {
				return true, true
			}
		}
	case term.OpSlt, term.OpSle:
		// signed comparison of values known to be small non-negative
		a, b := m.interval(c.Args[0]), m.interval(c.Args[1])
		top := uint64(1) << uint(c.Args[0].W-1)
		if a.hi < top && b.hi < top {
			if c.Op == term.OpSlt {
				if a.hi < b.lo {
					return true, true
				}
				if a.lo >= b.hi {
					return false, true
				}
			} else {
				if a.hi <= b.lo {
					return true, true
				}
				if a.lo > b.hi {
					return false, true
				}
			}
		}
	}
	return false, false
}
