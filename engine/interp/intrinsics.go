package interp

import (
	"fmt"

	"gosym/term"
)

const vfPkg = "github.com/B1NARY-GR0UP/originium/internal/zzvf."

func (m *Machine) sym(name string, w int) *term.Term {
	t := m.st.Var(name, w)
	for _, e := range m.inputs {
		if e == t {
			return t
		}
	}
	m.inputs = append(m.inputs, t)
	return t
}

func strArg(v value) string {
	s, ok := v.(Str).Concrete()
	if !ok {
		panic("intrinsic needs a concrete string argument")
	}
	return s
}

func (m *Machine) initIntrinsics() {
	type in = func(m *Machine, fr *frame, args []value) value
	m.intrinsics = map[string]in{
		vfPkg + "Byte": func(m *Machine, fr *frame, a []value) value { return m.sym(strArg(a[0]), 8) },
		vfPkg + "Bool": func(m *Machine, fr *frame, a []value) value { return m.sym(strArg(a[0]), 0) },
		vfPkg + "Uint64": func(m *Machine, fr *frame, a []value) value {
			return m.sym(strArg(a[0]), 64)
		},
		vfPkg + "Int": func(m *Machine, fr *frame, a []value) value {
			t := m.sym(strArg(a[0]), 64)
			m.assume(m.st.And(m.st.Sle(a[1].(*term.Term), t), m.st.Sle(t, a[2].(*term.Term))))
			return t
		},
		vfPkg + "Choose": func(m *Machine, fr *frame, a []value) value {
			lo, _ := a[1].(*term.Term).ConstVal()
			hi, _ := a[2].(*term.Term).ConstVal()
			n := int(hi) - int(lo) + 1
			p := m.nextDecision(n, func(int) bool { return true })
			m.chooses = append(m.chooses, int(int64(lo))+p)
			return m.st.BV(64, lo+uint64(p))
		},
		vfPkg + "Assume": func(m *Machine, fr *frame, a []value) value { m.assume(a[0].(*term.Term)); return nil },
		vfPkg + "Assert": func(m *Machine, fr *frame, a []value) value {
			m.assert(strArg(a[0]), a[1].(*term.Term))
			return nil
		},
		vfPkg + "Record": func(m *Machine, fr *frame, a []value) value {
			c, _ := a[1].(*term.Term).ConstVal()
			m.records[strArg(a[0])] = int64(c)
			return nil
		},
		vfPkg + "Recorded": func(m *Machine, fr *frame, a []value) value {
			v, ok := m.records[strArg(a[0])]
			if !ok {
				v = -1
			}
			return m.st.BV(64, uint64(v))
		},
		vfPkg + "Param": func(m *Machine, fr *frame, a []value) value {
			if v, ok := m.Params[strArg(a[0])]; ok {
				return m.st.BV(64, uint64(int64(v)))
			}
			return a[1]
		},
		vfPkg + "Known": func(m *Machine, fr *frame, a []value) value {
			id := strArg(a[0])
			if m.known == nil {
				m.known = map[string]*term.Term{}
			}
			if _, ok := m.known[id]; !ok {
				m.knownOrder = append(m.knownOrder, id)
			}
			m.known[id] = a[1].(*term.Term)
			return nil
		},
		vfPkg + "ObsBool": func(m *Machine, fr *frame, a []value) value {
			m.obs = append(m.obs, obsEntry{strArg(a[0]), "bool", []*term.Term{a[1].(*term.Term)}})
			return nil
		},
		vfPkg + "ObsU64": func(m *Machine, fr *frame, a []value) value {
			m.obs = append(m.obs, obsEntry{strArg(a[0]), "u64", []*term.Term{a[1].(*term.Term)}})
			return nil
		},
		vfPkg + "ObsInt": func(m *Machine, fr *frame, a []value) value {
			m.obs = append(m.obs, obsEntry{strArg(a[0]), "u64", []*term.Term{a[1].(*term.Term)}})
			return nil
		},
		vfPkg + "ObsBytes": func(m *Machine, fr *frame, a []value) value {
			var ts []*term.Term
			for _, b := range a[1].([]value) {
				ts = append(ts, b.(*term.Term))
			}
			m.obs = append(m.obs, obsEntry{strArg(a[0]), "bytes", ts})
			return nil
		},
		vfPkg + "ObsStr": func(m *Machine, fr *frame, a []value) value {
			m.obs = append(m.obs, obsEntry{strArg(a[0]), "bytes", a[1].(Str).B})
			return nil
		},
		vfPkg + "Native": func(m *Machine, fr *frame, a []value) value { return m.st.False },
		vfPkg + "Yield":  func(m *Machine, fr *frame, a []value) value { m.preemptPoint(); return nil },
		vfPkg + "CrashPoint": func(m *Machine, fr *frame, a []value) value { m.fsOp("harness", strArg(a[0])); m.fs.Ops--; return nil },
		vfPkg + "CoinRand": func(m *Machine, fr *frame, a []value) value {
			var v value = &opaque{"rand.Rand"}
			return &v
		},
		vfPkg + "Ite": func(m *Machine, fr *frame, a []value) value {
			return m.st.Ite(a[0].(*term.Term), a[1].(*term.Term), a[2].(*term.Term))
		},
		vfPkg + "IteU64": func(m *Machine, fr *frame, a []value) value {
			return m.st.Ite(a[0].(*term.Term), a[1].(*term.Term), a[2].(*term.Term))
		},
		vfPkg + "IteByte": func(m *Machine, fr *frame, a []value) value {
			return m.st.Ite(a[0].(*term.Term), a[1].(*term.Term), a[2].(*term.Term))
		},
		vfPkg + "StrLess": func(m *Machine, fr *frame, a []value) value { return m.strLess(a[0].(Str), a[1].(Str)) },
		vfPkg + "Dir":   func(m *Machine, fr *frame, a []value) value { return m.strConst("/db") },
		vfPkg + "Cover": func(m *Machine, fr *frame, a []value) value { m.Covers[strArg(a[0])]++; return nil },
		vfPkg + "And":   func(m *Machine, fr *frame, a []value) value { return m.st.And(a[0].(*term.Term), a[1].(*term.Term)) },
		vfPkg + "Or":    func(m *Machine, fr *frame, a []value) value { return m.st.Or(a[0].(*term.Term), a[1].(*term.Term)) },
		vfPkg + "Not":   func(m *Machine, fr *frame, a []value) value { return m.st.Not(a[0].(*term.Term)) },
		vfPkg + "Implies": func(m *Machine, fr *frame, a []value) value {
			return m.st.Or(m.st.Not(a[0].(*term.Term)), a[1].(*term.Term))
		},
		vfPkg + "StrEq": func(m *Machine, fr *frame, a []value) value { return m.strEq(a[0].(Str), a[1].(Str)) },
		vfPkg + "BytesEq": func(m *Machine, fr *frame, a []value) value {
			x, y := a[0].([]value), a[1].([]value)
			if len(x) != len(y) {
				return m.st.False
			}
			r := m.st.True
			for i := range x {
				r = m.st.And(r, m.st.Eq(x[i].(*term.Term), y[i].(*term.Term)))
			}
			return r
		},

		"internal/bytealg.CompareString": func(m *Machine, fr *frame, a []value) value {
			return m.strCompare(a[0].(Str), a[1].(Str))
		},
		"fmt.Sprintf": func(m *Machine, fr *frame, a []value) value {
			format := strArg(a[0])
			var nat []any
			for _, x := range a[1].([]value) {
				nat = append(nat, m.native(x.(iface)))
			}
			return m.strConst(fmt.Sprintf(format, nat...))
		},
		"strconv.syntaxError":  errStub,
		"strconv.rangeError":   errStub,
		"strconv.baseError":    errStub,
		"strconv.bitSizeError": errStub,
	}
}

func errStub(m *Machine, fr *frame, a []value) value {
	var v value = structure{}
	return &v
}

var _ = fmt.Sprint

// native converts a concrete interpreter value to a native Go value.
func (m *Machine) native(x iface) any {
	switch v := x.v.(type) {
	case *term.Term:
		c, ok := v.ConstVal()
		if !ok {
			return "<symbolic>"
		}
		b := basicOf(x.t)
		if b != nil && isSigned(b) {
			return int64(c)
		}
		if v.IsBool() {
			return c == 1
		}
		return c
	case Str:
		if s, ok := v.Concrete(); ok {
			return s
		}
		return "<symbolic string>"
	case []value:
		return fmt.Sprintf("<%d bytes>", len(v))
	case float64:
		return v
	}
	return fmt.Sprintf("<%v>", x.t)
}
