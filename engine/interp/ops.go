package interp

import (
	"fmt"
	"go/token"
	"go/types"

	"golang.org/x/tools/go/ssa"

	"gosym/term"
)

func (m *Machine) unop(fr *frame, in *ssa.UnOp) value {
	x := m.get(fr, in.X)
	switch in.Op {
	case token.MUL: // load
		if r, ok := x.(*symRef); ok {
			return m.symLoad(r)
		}
		p := x.(*value)
		if p == nil {
			panic(goPanic{"nil pointer dereference (load) in " + fr.fn.String()})
		}
		if m.DetectRaces {
			m.raceAccess(p, false, site(fr, in))
		}
		if t, ok := (*p).(*term.Term); ok && t.W == 8 {
			// a load wider than the byte cell: *(*uintN)(unsafe.Pointer(&b[i])), little endian
			if bt := basicOf(in.Type()); bt != nil && bt.Info()&types.IsInteger != 0 && intWidth(bt) > 8 {
				return m.wideLoad(p, intWidth(bt)/8, fr)
			}
		}
		return copyVal(*p)
	case token.ARROW:
		c, _ := x.(*chanVal)
		v, ok := m.chanRecv(c)
		if in.CommaOk {
			return tuple{v, m.st.Bool(ok)}
		}
		return v
	case token.NOT:
		return m.st.Not(x.(*term.Term))
	case token.SUB:
		if f, ok := x.(float64); ok {
			return -f
		}
		return m.st.Un(term.OpNeg, x.(*term.Term))
	case token.XOR:
		return m.st.Un(term.OpBvNot, x.(*term.Term))
	}
	panic(fmt.Sprintf("unop %v unsupported", in.Op))
}

func (m *Machine) strEq(a, b Str) *term.Term {
	if len(a.B) != len(b.B) {
		return m.st.False
	}
	r := m.st.True
	for i := range a.B {
		r = m.st.And(r, m.st.Eq(a.B[i], b.B[i]))
	}
	return r
}

// strLess returns a<b lexicographically as a single term.
func (m *Machine) strLess(a, b Str) *term.Term {
	n := len(a.B)
	if len(b.B) < n {
		n = len(b.B)
	}
	// from the end: result if all first n equal
	r := m.st.Bool(len(a.B) < len(b.B))
	for i := n - 1; i >= 0; i-- {
		lt := m.st.Ult(a.B[i], b.B[i])
		eq := m.st.Eq(a.B[i], b.B[i])
		r = m.st.Or(lt, m.st.And(eq, r))
	}
	return r
}

// strCompare returns -1/0/+1 as a 64-bit term.
func (m *Machine) strCompare(a, b Str) *term.Term {
	lt := m.strLess(a, b)
	eq := m.strEq(a, b)
	return m.st.Ite(lt, m.st.BV(64, ^uint64(0)), m.st.Ite(eq, m.st.BV(64, 0), m.st.BV(64, 1)))
}

func (m *Machine) equal(t types.Type, x, y value) *term.Term {
	switch x := x.(type) {
	case *term.Term:
		return m.st.Eq(x, y.(*term.Term))
	case Str:
		return m.strEq(x, y.(Str))
	case *value:
		return m.st.Bool(x == y.(*value))
	case iface:
		yi := y.(iface)
		if x.t == nil || yi.t == nil {
			return m.st.Bool(x.t == nil && yi.t == nil)
		}
		if !types.Identical(x.t, yi.t) {
			return m.st.False
		}
		return m.equal(x.t, x.v, yi.v)
	case []value:
		// only comparison with nil is legal
		ys, _ := y.([]value)
		return m.st.Bool(x == nil && ys == nil)
	case structure:
		r := m.st.True
		ys := y.(structure)
		for i := range x {
			r = m.st.And(r, m.equal(nil, x[i], ys[i]))
		}
		return r
	case *hmap:
		return m.st.Bool(x == y.(*hmap))
	case *chanVal:
		yc, _ := y.(*chanVal)
		return m.st.Bool(x == yc)
	case *ssa.Function:
		yf, _ := y.(*ssa.Function)
		return m.st.Bool(x == yf)
	case *closure:
		return m.st.Bool(false)
	}
	panic(fmt.Sprintf("equal: %T", x))
}

func (m *Machine) binop(op token.Token, t types.Type, x, y value) value {
	switch xv := x.(type) {
	case Str:
		ys := y.(Str)
		switch op {
		case token.ADD:
			b := make([]*term.Term, 0, len(xv.B)+len(ys.B))
			b = append(b, xv.B...)
			b = append(b, ys.B...)
			return Str{b}
		case token.EQL:
			return m.strEq(xv, ys)
		case token.NEQ:
			return m.st.Not(m.strEq(xv, ys))
		case token.LSS:
			return m.strLess(xv, ys)
		case token.GTR:
			return m.strLess(ys, xv)
		case token.LEQ:
			return m.st.Not(m.strLess(ys, xv))
		case token.GEQ:
			return m.st.Not(m.strLess(xv, ys))
		}
	case float64:
		yf := y.(float64)
		switch op {
		case token.ADD:
			return xv + yf
		case token.SUB:
			return xv - yf
		case token.MUL:
			return xv * yf
		case token.QUO:
			return xv / yf
		case token.LSS:
			return m.st.Bool(xv < yf)
		case token.LEQ:
			return m.st.Bool(xv <= yf)
		case token.GTR:
			return m.st.Bool(xv > yf)
		case token.GEQ:
			return m.st.Bool(xv >= yf)
		case token.EQL:
			return m.st.Bool(xv == yf)
		case token.NEQ:
			return m.st.Bool(xv != yf)
		}
	case *term.Term:
		yt := y.(*term.Term)
		if xv.IsBool() {
			switch op {
			case token.EQL:
				return m.st.Eq(xv, yt)
			case token.NEQ:
				return m.st.Not(m.st.Eq(xv, yt))
			case token.AND:
				return m.st.And(xv, yt)
			case token.OR:
				return m.st.Or(xv, yt)
			}
			panic("bool binop " + op.String())
		}
		signed := true
		if b := basicOf(t); b != nil {
			signed = isSigned(b)
		}
		// shifts: y may have a different width
		if op == token.SHL || op == token.SHR {
			if yt.W != xv.W {
				if yt.W < xv.W {
					yt = m.st.Zext(yt, xv.W)
				} else {
					// clamp: if y >= W result is 0 / sign; approximate by truncation of a saturated value
					big := m.st.Ule(m.st.BV(yt.W, uint64(xv.W)), yt)
					yt = m.st.Ite(big, m.st.BV(xv.W, uint64(xv.W)), m.st.Extract(yt, xv.W-1, 0))
				}
			}
			if op == token.SHL {
				return m.st.Bin(term.OpShl, xv, yt)
			}
			if signed {
				return m.st.Bin(term.OpAshr, xv, yt)
			}
			return m.st.Bin(term.OpLshr, xv, yt)
		}
		switch op {
		case token.ADD:
			return m.st.Bin(term.OpAdd, xv, yt)
		case token.SUB:
			return m.st.Bin(term.OpSub, xv, yt)
		case token.MUL:
			return m.st.Bin(term.OpMul, xv, yt)
		case token.QUO, token.REM:
			if m.branch(m.st.Eq(yt, m.st.BV(yt.W, 0))) {
				panic(goPanic{"integer divide by zero"})
			}
			if signed {
				if op == token.QUO {
					return m.st.Bin(term.OpSdiv, xv, yt)
				}
				return m.st.Bin(term.OpSrem, xv, yt)
			}
			if op == token.QUO {
				return m.st.Bin(term.OpUdiv, xv, yt)
			}
			return m.st.Bin(term.OpUrem, xv, yt)
		case token.AND:
			return m.st.Bin(term.OpBvAnd, xv, yt)
		case token.OR:
			return m.st.Bin(term.OpBvOr, xv, yt)
		case token.XOR:
			return m.st.Bin(term.OpBvXor, xv, yt)
		case token.AND_NOT:
			return m.st.Bin(term.OpBvAnd, xv, m.st.Un(term.OpBvNot, yt))
		case token.EQL:
			return m.st.Eq(xv, yt)
		case token.NEQ:
			return m.st.Not(m.st.Eq(xv, yt))
		case token.LSS:
			if signed {
				return m.st.Slt(xv, yt)
			}
			return m.st.Ult(xv, yt)
		case token.LEQ:
			if signed {
				return m.st.Sle(xv, yt)
			}
			return m.st.Ule(xv, yt)
		case token.GTR:
			if signed {
				return m.st.Slt(yt, xv)
			}
			return m.st.Ult(yt, xv)
		case token.GEQ:
			if signed {
				return m.st.Sle(yt, xv)
			}
			return m.st.Ule(yt, xv)
		}
	}
	switch op {
	case token.EQL:
		return m.equal(t, x, y)
	case token.NEQ:
		return m.st.Not(m.equal(t, x, y))
	}
	panic(fmt.Sprintf("binop %v on %T unsupported", op, x))
}

func (m *Machine) convert(src, dst types.Type, x value) value {
	su, du := src.Underlying(), dst.Underlying()
	switch xv := x.(type) {
	case *term.Term:
		if db, ok := du.(*types.Basic); ok {
			if db.Info()&types.IsInteger != 0 {
				w := intWidth(db)
				sb := su.(*types.Basic)
				if w <= xv.W {
					return m.st.Extract(xv, w-1, 0)
				}
				if isSigned(sb) {
					return m.st.Sext(xv, w)
				}
				return m.st.Zext(xv, w)
			}
			if db.Info()&types.IsString != 0 {
				// string(rune/byte)
				if xv.W == 8 {
					return Str{[]*term.Term{xv}}
				}
				if c, ok := xv.ConstVal(); ok {
					return m.strConst(string(rune(int32(c))))
				}
			}
			if db.Info()&types.IsFloat != 0 {
				if v, ok := xv.ConstVal(); ok {
					if isSigned(su.(*types.Basic)) {
						return float64(int64(v))
					}
					return float64(v)
				}
			}
		}
	case Str:
		if _, ok := du.(*types.Slice); ok { // []byte(s)
			out := make([]value, len(xv.B))
			for i, b := range xv.B {
				out[i] = b
			}
			return out
		}
		if db, ok := du.(*types.Basic); ok && db.Info()&types.IsString != 0 {
			return xv
		}
	case []value:
		if db, ok := du.(*types.Basic); ok && db.Info()&types.IsString != 0 { // string(bytes)
			out := make([]*term.Term, len(xv))
			for i, b := range xv {
				out[i] = b.(*term.Term)
			}
			return Str{out}
		}
	case float64:
		if db, ok := du.(*types.Basic); ok {
			if db.Info()&types.IsFloat != 0 {
				return xv
			}
			if db.Info()&types.IsInteger != 0 {
				return m.st.BV(intWidth(db), uint64(int64(xv)))
			}
		}
	case *value:
		return xv
	}
	panic(fmt.Sprintf("convert %v -> %v (%T) unsupported", src, dst, x))
}

func (m *Machine) boundsIdx(fr *frame, v ssa.Value, def, lo, hi int, what string) int {
	if v == nil {
		return def
	}
	t := m.get(fr, v).(*term.Term)
	if c, ok := t.ConstVal(); ok {
		i := int(int64(c))
		if i < lo || i > hi {
			panic(goPanic{fmt.Sprintf("slice bounds out of range (%s=%d, valid %d..%d) in %s", what, i, lo, hi, fr.fn)})
		}
		return i
	}
	// symbolic: out-of-range is a panic path; in-range values are case-split
	inRange := m.st.And(m.st.Sle(m.st.BV(64, uint64(lo)), t), m.st.Sle(t, m.st.BV(64, uint64(hi))))
	if !m.branch(inRange) {
		panic(goPanic{fmt.Sprintf("slice bounds out of range (symbolic %s) in %s", what, fr.fn)})
	}
	return m.concretize(t, lo, hi)
}

func (m *Machine) slice(fr *frame, in *ssa.Slice) value {
	x := m.get(fr, in.X)
	switch xv := x.(type) {
	case Str:
		n := len(xv.B)
		lo := m.boundsIdx(fr, in.Low, 0, 0, n, "low")
		hi := m.boundsIdx(fr, in.High, n, lo, n, "high")
		return Str{xv.B[lo:hi]}
	case []value:
		c := cap(xv)
		lo := m.boundsIdx(fr, in.Low, 0, 0, c, "low")
		hi := m.boundsIdx(fr, in.High, len(xv), lo, c, "high")
		mx := m.boundsIdx(fr, in.Max, c, hi, c, "max")
		if xv == nil {
			return xv
		}
		return xv[lo:hi:mx]
	case *value: // pointer to array
		a := (*xv).(array)
		n := len(a)
		lo := m.boundsIdx(fr, in.Low, 0, 0, n, "low")
		hi := m.boundsIdx(fr, in.High, n, lo, n, "high")
		mx := m.boundsIdx(fr, in.Max, n, hi, n, "max")
		return []value(a)[lo:hi:mx]
	}
	panic(fmt.Sprintf("slice of %T", x))
}

func (m *Machine) idx(fr *frame, v ssa.Value, n int) int {
	t := m.get(fr, v).(*term.Term)
	if t.W != 64 {
		t = m.st.Zext(t, 64)
	}
	if c, ok := t.ConstVal(); ok {
		i := int(int64(c))
		if i < 0 || i >= n {
			panic(goPanic{fmt.Sprintf("index out of range [%d] with length %d in %s", i, n, fr.fn)})
		}
		return i
	}
	inRange := m.st.And(m.st.Sle(m.st.BV(64, 0), t), m.st.Slt(t, m.st.BV(64, uint64(n))))
	if !m.branch(inRange) {
		panic(goPanic{fmt.Sprintf("index out of range (symbolic) with length %d in %s", n, fr.fn)})
	}
	return m.concretize(t, 0, n-1)
}

// Symbolic-index access to a scalar slice (read-over-write expansion): once a slice has
// been written at a symbolic index its accesses go through a store log; a load is
// ite(idx==i_K, v_K, ... ite(idx==i_1, v_1, base[idx])).
type symStoreRec struct {
	idx *term.Term
	val *term.Term
}

type symArr struct {
	base []value
	log  []symStoreRec
}

type symRef struct {
	arr *symArr
	idx *term.Term
}

func (m *Machine) symLoad(r *symRef) value {
	a := r.arr
	var acc *term.Term
	if c, ok := r.idx.ConstVal(); ok {
		acc = a.base[int(c)].(*term.Term)
	} else {
		uniform := true
		for _, b := range a.base[1:] {
			if b != a.base[0] {
				uniform = false
				break
			}
		}
		acc = a.base[len(a.base)-1].(*term.Term)
		if !uniform {
			for j := len(a.base) - 2; j >= 0; j-- {
				acc = m.st.Ite(m.st.Eq(r.idx, m.st.BV(64, uint64(j))), a.base[j].(*term.Term), acc)
			}
		}
	}
	for _, rec := range a.log {
		acc = m.st.Ite(m.st.Eq(r.idx, rec.idx), rec.val, acc)
	}
	return acc
}

func (m *Machine) symStore(r *symRef, v *term.Term) {
	a := r.arr
	if c, ok := r.idx.ConstVal(); ok && len(a.log) == 0 {
		a.base[int(c)] = v
		return
	}
	a.log = append(a.log, symStoreRec{r.idx, v})
}

func (m *Machine) indexAddr(fr *frame, in *ssa.IndexAddr) value {
	x := m.get(fr, in.X)
	switch xv := x.(type) {
	case []value:
		if m.SymIndex && len(xv) > 0 {
			if t, ok := m.get(fr, in.Index).(*term.Term); ok {
				arr := m.symArrs[&xv[0]]
				if _, scalar := xv[0].(*term.Term); scalar && (arr != nil || !t.IsConst()) {
					if t.W != 64 {
						t = m.st.Zext(t, 64)
					}
					inRange := m.st.And(m.st.Sle(m.st.BV(64, 0), t), m.st.Slt(t, m.st.BV(64, uint64(len(xv)))))
					if !m.branch(inRange) {
						panic(goPanic{fmt.Sprintf("index out of range (symbolic) with length %d in %s", len(xv), fr.fn)})
					}
					if arr == nil {
						if m.symArrs == nil {
							m.symArrs = map[*value]*symArr{}
						}
						arr = &symArr{base: xv}
						m.symArrs[&xv[0]] = arr
					}
					return &symRef{arr: arr, idx: t}
				}
			}
		}
		i := m.idx(fr, in.Index, len(xv))
		p := &xv[i]
		if bt := basicOf(in.X.Type().Underlying().(*types.Slice).Elem()); bt != nil && bt.Kind() == types.Uint8 {
			m.noteOrigin(p, xv, i)
		}
		return p
	case *value:
		if xv == nil {
			panic(goPanic{"nil pointer dereference (IndexAddr)"})
		}
		a := (*xv).(array)
		return &a[m.idx(fr, in.Index, len(a))]
	}
	panic(fmt.Sprintf("indexAddr of %T", x))
}

func (m *Machine) index(fr *frame, in *ssa.Index) value {
	x := m.get(fr, in.X)
	switch xv := x.(type) {
	case array:
		return copyVal(xv[m.idx(fr, in.Index, len(xv))])
	case Str:
		return xv.B[m.idx(fr, in.Index, len(xv.B))]
	}
	panic(fmt.Sprintf("index of %T", x))
}

func (m *Machine) lookup(fr *frame, in *ssa.Lookup) value {
	x := m.get(fr, in.X)
	switch xv := x.(type) {
	case Str:
		return xv.B[m.idx(fr, in.Index, len(xv.B))]
	case *hmap:
		if m.DetectRaces && xv != nil {
			m.raceRead(&xv.cell, site(fr, in))
		}
		k := m.get(fr, in.Index)
		zero := m.zero(in.X.Type().Underlying().(*types.Map).Elem())
		v, ok := m.mapLookup(xv, k)
		if !ok {
			v = zero
		}
		if in.CommaOk {
			return tuple{v, m.st.Bool(ok)}
		}
		return v
	}
	panic(fmt.Sprintf("lookup in %T", x))
}

// mapLookup forks on equality of the key with each present key.
func (m *Machine) mapLookup(h *hmap, k value) (value, bool) {
	if h == nil {
		return nil, false
	}
	for i, hk := range h.keys {
		if m.branch(m.equal(nil, hk, k)) {
			return copyVal(h.vals[i]), true
		}
	}
	return nil, false
}

func (m *Machine) mapUpdate(h *hmap, k, v value) {
	if h == nil {
		panic(goPanic{"assignment to entry in nil map"})
	}
	for i, hk := range h.keys {
		if m.branch(m.equal(nil, hk, k)) {
			h.vals[i] = copyVal(v)
			return
		}
	}
	h.keys = append(h.keys, k)
	h.vals = append(h.vals, copyVal(v))
}

func (m *Machine) mapDelete(h *hmap, k value) {
	if h == nil {
		return
	}
	for i, hk := range h.keys {
		if m.branch(m.equal(nil, hk, k)) {
			h.keys = append(h.keys[:i:i], h.keys[i+1:]...)
			h.vals = append(h.vals[:i:i], h.vals[i+1:]...)
			return
		}
	}
}

func (m *Machine) typeAssert(fr *frame, in *ssa.TypeAssert) value {
	x := m.get(fr, in.X).(iface)
	var ok bool
	var v value
	if it, isIface := in.AssertedType.Underlying().(*types.Interface); isIface {
		if x.t != nil && types.Implements(x.t, it) {
			ok = true
			v = x
		} else if x.t != nil {
			// pointer receiver method sets are handled by types.Implements on the dynamic type
			v = iface{}
		} else {
			v = iface{}
		}
	} else {
		if x.t != nil && types.Identical(x.t, in.AssertedType) {
			ok = true
			v = x.v
		} else {
			v = m.zero(in.AssertedType)
		}
	}
	if in.CommaOk {
		return tuple{v, m.st.Bool(ok)}
	}
	if !ok {
		panic(goPanic{fmt.Sprintf("interface conversion failed: %v is not %v", x.t, in.AssertedType)})
	}
	return v
}

type iter struct {
	str  *Str
	h    *hmap
	pos  int
	keys []value
	vals []value
}

func (m *Machine) rangeIter(fr *frame, in *ssa.Range) value {
	x := m.get(fr, in.X)
	switch xv := x.(type) {
	case Str:
		return &iter{str: &xv}
	case *hmap:
		it := &iter{h: xv}
		if xv != nil {
			it.keys = append([]value(nil), xv.keys...)
			it.vals = append([]value(nil), xv.vals...)
		}
		return it
	}
	panic(fmt.Sprintf("range over %T", x))
}

func (it *iter) next(m *Machine) value {
	if it.str != nil {
		// range over a string decodes UTF-8 (Go semantics); symbolic bytes are case-split on the
		// encoding classes, so every decoding the bytes admit is a path
		if it.pos >= len(it.str.B) {
			return tuple{m.st.False, m.st.BV(64, 0), m.st.BV(32, 0)}
		}
		i := it.pos
		r, w := m.decodeRune(it.str.B[i:])
		it.pos += w
		return tuple{m.st.True, m.st.BV(64, uint64(i)), r}
	}
	if it.pos >= len(it.keys) {
		return tuple{m.st.False, nil, nil}
	}
	i := it.pos
	it.pos++
	return tuple{m.st.True, it.keys[i], it.vals[i]}
}

type origin struct {
	s []value
	i int
}

func (m *Machine) noteOrigin(p *value, s []value, i int) {
	if m.origins == nil {
		m.origins = map[*value]origin{}
	}
	m.origins[p] = origin{s, i}
}

func (m *Machine) wideLoad(p *value, n int, fr *frame) value {
	o, ok := m.origins[p]
	if !ok {
		panic("wide load from a byte cell of unknown origin in " + fr.fn.String())
	}
	if o.i+n > len(o.s) {
		panic(goPanic{"unsafe wide load past the end of the slice in " + fr.fn.String()})
	}
	r := o.s[o.i].(*term.Term)
	for k := 1; k < n; k++ {
		r = m.st.Concat(o.s[o.i+k].(*term.Term), r)
	}
	return r
}

// decodeRune implements utf8.DecodeRuneInString on symbolic bytes: it returns the rune (a
// 32-bit term) and its concrete width; invalid encodings yield U+FFFD with width 1.
func (m *Machine) decodeRune(b []*term.Term) (*term.Term, int) {
	st := m.st
	c8 := func(v uint64) *term.Term { return st.BV(8, v) }
	in := func(x *term.Term, lo, hi uint64) *term.Term { return st.And(st.Ule(c8(lo), x), st.Ule(x, c8(hi))) }
	z := func(x *term.Term) *term.Term { return st.Zext(x, 32) }
	sh := func(x *term.Term, n uint64) *term.Term { return st.Bin(term.OpShl, x, st.BV(32, n)) }
	and := func(x *term.Term, mask uint64) *term.Term { return st.Bin(term.OpBvAnd, z(x), st.BV(32, mask)) }
	or := func(a, b *term.Term) *term.Term { return st.Bin(term.OpBvOr, a, b) }
	bad := st.BV(32, 0xFFFD)
	b0 := b[0]
	if m.branch(st.Ult(b0, c8(0x80))) {
		return z(b0), 1
	}
	cont := func(x *term.Term) *term.Term { return in(x, 0x80, 0xBF) }
	// two bytes: C2..DF 80..BF
	if m.branch(in(b0, 0xC2, 0xDF)) {
		if len(b) >= 2 && m.branch(cont(b[1])) {
			return or(sh(and(b0, 0x1F), 6), and(b[1], 0x3F)), 2
		}
		return bad, 1
	}
	// three bytes: E0 A0..BF, E1..EC 80..BF, ED 80..9F, EE..EF 80..BF
	if m.branch(in(b0, 0xE0, 0xEF)) {
		if len(b) < 3 {
			return bad, 1
		}
		lo, hi := st.Ite(st.Eq(b0, c8(0xE0)), c8(0xA0), c8(0x80)), st.Ite(st.Eq(b0, c8(0xED)), c8(0x9F), c8(0xBF))
		ok1 := st.And(st.Ule(lo, b[1]), st.Ule(b[1], hi))
		if m.branch(st.And(ok1, cont(b[2]))) {
			return or(or(sh(and(b0, 0x0F), 12), sh(and(b[1], 0x3F), 6)), and(b[2], 0x3F)), 3
		}
		return bad, 1
	}
	// four bytes: F0 90..BF, F1..F3 80..BF, F4 80..8F
	if m.branch(in(b0, 0xF0, 0xF4)) {
		if len(b) < 4 {
			return bad, 1
		}
		lo, hi := st.Ite(st.Eq(b0, c8(0xF0)), c8(0x90), c8(0x80)), st.Ite(st.Eq(b0, c8(0xF4)), c8(0x8F), c8(0xBF))
		ok1 := st.And(st.Ule(lo, b[1]), st.Ule(b[1], hi))
		if m.branch(st.And(ok1, st.And(cont(b[2]), cont(b[3])))) {
			return or(or(or(sh(and(b0, 0x07), 18), sh(and(b[1], 0x3F), 12)), sh(and(b[2], 0x3F), 6)), and(b[3], 0x3F)), 4
		}
		return bad, 1
	}
	return bad, 1
}
