package interp

import (
	"fmt"
	"go/types"
	"sync"

	"golang.org/x/tools/go/ssa"

	"gosym/term"
)

// Cooperative goroutine runtime.  Every interpreted goroutine runs on a real goroutine
// but only the holder of the baton executes; switches happen only at blocking
// synchronisation operations (lazy policy) and, optionally, at every sync point.

type G struct {
	site    string
	id      int
	wake    chan struct{}
	done    bool
	waiting func() bool // nil = runnable; else ready predicate
}

type chanVal struct {
	bufVC  []vclock
	slotVC []vclock
	buf    []value
	cap    int
	closed bool
	sendq  []*sendReq
	elem   types.Type
}

type sendReq struct {
	v      value
	done   bool
	vc     vclock
	recvVC vclock
}

type rtState struct {
	gs      []*G
	cur     *G
	dead    bool
	abort   interface{}
	wg      sync.WaitGroup
	mutexes map[*value]*mutexState
	wgs     map[*value]int
	draining bool
	Deadlocks int
}

type mutexState struct {
	locked   bool
	readers  int
	pendingW int // goroutines blocked in RWMutex.Lock
}

func (m *Machine) rtReset() {
	m.rt = &rtState{mutexes: map[*value]*mutexState{}, wgs: map[*value]int{}}
	g0 := &G{id: 0, wake: make(chan struct{}, 1)}
	m.rt.gs = []*G{g0}
	m.rt.cur = g0
	m.raceReset()
}

// rtShutdown kills all parked goroutines of the finished path.
func (m *Machine) rtShutdown() {
	r := m.rt
	r.dead = true
	for _, g := range r.gs[1:] {
		if !g.done {
			g.wake <- struct{}{}
		}
	}
	r.wg.Wait()
}

func (m *Machine) spawn(fv value, args []value) {
	r := m.rt
	g := &G{id: len(r.gs), wake: make(chan struct{}, 1)}
	r.gs = append(r.gs, g)
	m.raceFork(g.id)
	r.wg.Add(1)
	go func() {
		defer r.wg.Done()
		<-g.wake
		if r.dead {
			g.done = true
			return
		}
		defer func() {
			g.done = true
			if x := recover(); x != nil {
				if _, ok := x.(killed); !ok && r.abort == nil {
					r.abort = x
				}
			}
			if r.dead {
				return
			}
			if r.abort != nil {
				// hand the failure to G0
				r.dead = true
				r.gs[0].wake <- struct{}{}
				return
			}
			m.schedule(g) // pass the baton on
		}()
		m.invoke(fv, args)
	}()
}

type killed struct{}

// park gives the baton to next and waits to be woken.
func (m *Machine) switchTo(from, next *G) {
	r := m.rt
	r.cur = next
	next.wake <- struct{}{}
	if from.done {
		return
	}
	<-from.wake
	if r.dead {
		if from.id == 0 && r.abort != nil {
			x := r.abort
			r.abort = nil
			panic(x)
		}
		panic(killed{})
	}
}

// schedOn: schedule exploration is active (everywhere, or - ZoneOnly - only while the
// harness has set the record "zone" in the first phase; recovery phases then run under the
// default schedule).
func (m *Machine) schedOn() bool {
	if !m.ExploreSched {
		return false
	}
	if m.ZoneOnly {
		return m.Phase == 0 && m.records["zone"] == 1
	}
	return true
}

func (g *G) runnable() bool { return !g.done && (g.waiting == nil || g.waiting()) }

// schedule is called by a goroutine that cannot continue (blocked or finished).
func (m *Machine) schedule(from *G) {
	r := m.rt
	var cands []*G
	for _, g := range r.gs {
		if g != from && g.runnable() {
			cands = append(cands, g)
		}
	}
	if len(cands) == 0 {
		if from.done {
			// background goroutine finished and nothing else can run: wake G0 only if it is runnable
			if !r.gs[0].done && r.gs[0].waiting != nil {
				r.Deadlocks++
				r.abort = goPanic{"deadlock: harness goroutine blocked and nothing runnable"}
				r.dead = true
				r.gs[0].wake <- struct{}{}
			}
			return
		}
		if from.id == 0 {
			panic(goPanic{"deadlock: harness goroutine blocked and nothing runnable"})
		}
		// a background goroutine blocks with nothing runnable: G0 must be blocked too
		if r.gs[0].done {
			return
		}
		r.Deadlocks++
		r.abort = goPanic{"deadlock: all goroutines blocked"}
		r.dead = true
		r.gs[0].wake <- struct{}{}
		<-from.wake
		panic(killed{})
	}
	pick := 0
	if len(cands) > 1 && m.schedOn() && m.devs < m.MaxDev {
		pick = m.nextDecision(len(cands), func(int) bool { return true })
		if pick != 0 {
			m.devs++
		}
	}
	m.switchTo(from, cands[pick])
}

// preemptPoint lets the exploration switch away from a goroutine that could continue.
func (m *Machine) preemptPoint() {
	if m.Eager && m.rt.cur.id == 0 && !m.rt.draining {
		m.rt.draining = true
		m.drain()
		m.rt.draining = false
		return
	}
	if !m.schedOn() || m.devs >= m.MaxDev {
		return
	}
	g := m.rt.cur
	var cands []*G
	for _, x := range m.rt.gs {
		if x != g && x.runnable() {
			cands = append(cands, x)
		}
	}
	if len(cands) == 0 {
		return
	}
	pick := m.nextDecision(len(cands)+1, func(int) bool { return true })
	if pick == 0 {
		return
	}
	m.devs++
	g.waiting = func() bool { return true }
	m.switchTo(g, cands[pick-1])
	g.waiting = nil
}

// block suspends the current goroutine until ready() holds.
func (m *Machine) block(ready func() bool) {
	g := m.rt.cur
	for !ready() {
		g.waiting = ready
		m.schedule(g)
		g.waiting = nil
	}
}

// yield lets every other runnable goroutine run until the system is quiescent.
func (m *Machine) drain() {
	g := m.rt.cur
	for {
		other := false
		for _, x := range m.rt.gs {
			if x != g && x.runnable() {
				other = true
			}
		}
		if !other {
			return
		}
		g.waiting = func() bool { return true }
		// prefer others: schedule picks among runnable != g
		m.schedule(g)
		g.waiting = nil
	}
}

// ---- channels ----

func (m *Machine) chanRecvReady(c *chanVal) bool {
	return c != nil && (len(c.buf) > 0 || len(c.sendq) > 0 || c.closed)
}

func (m *Machine) chanRecvNow(c *chanVal) (value, bool) {
	if len(c.buf) > 0 {
		v := c.buf[0]
		c.buf = c.buf[1:]
		if m.DetectRaces {
			m.curVC().join(c.bufVC[0])
			c.bufVC = c.bufVC[1:]
			c.slotVC = append(c.slotVC, m.curVC().copy())
			g := m.rt.cur.id
			m.curVC().set(g, m.curVC().get(g)+1)
		}
		if len(c.sendq) > 0 {
			s := c.sendq[0]
			c.sendq = c.sendq[1:]
			c.buf = append(c.buf, s.v)
			if m.DetectRaces {
				c.bufVC = append(c.bufVC, s.vc)
				s.recvVC = m.curVC().copy()
			}
			s.done = true
		}
		return v, true
	}
	if len(c.sendq) > 0 {
		s := c.sendq[0]
		c.sendq = c.sendq[1:]
		if m.DetectRaces {
			m.curVC().join(s.vc)
			s.recvVC = m.curVC().copy()
			g := m.rt.cur.id
			m.curVC().set(g, m.curVC().get(g)+1)
		}
		s.done = true
		return s.v, true
	}
	m.acquire(c)
	return m.zero(c.elem), false // closed
}

func (m *Machine) chanSend(c *chanVal, v value) { m.chanSendEv(c, v, true) }

// chanSendEv: ev=false when the send is the chosen case of a select (the select already
// recorded its event; the native gate sees one operation).
func (m *Machine) chanSendEv(c *chanVal, v value, ev bool) {
	if c == nil {
		m.block(func() bool { return false })
	}
	if c.closed {
		panic(goPanic{"send on closed channel"})
	}
	if len(c.buf) < c.cap {
		c.buf = append(c.buf, v)
		if m.DetectRaces {
			if len(c.slotVC) > 0 {
				m.curVC().join(c.slotVC[0])
				c.slotVC = c.slotVC[1:]
			}
			c.bufVC = append(c.bufVC, m.curVC().copy())
			g := m.rt.cur.id
			m.curVC().set(g, m.curVC().get(g)+1)
		}
		if ev {
			m.event("send")
		}
		m.preemptPoint()
		return
	}
	req := &sendReq{v: v}
	if m.DetectRaces {
		req.vc = m.curVC().copy()
		g := m.rt.cur.id
		m.curVC().set(g, m.curVC().get(g)+1)
	}
	c.sendq = append(c.sendq, req)
	// a blocking send is recorded when the sender commits to it ("sendb"): the native replay
	// lets the sender enter the channel operation and admits the following events beside it
	if ev {
		m.event("sendb")
	}
	m.block(func() bool { return req.done || c.closed })
	if !req.done {
		panic(goPanic{"send on closed channel"})
	}
	if m.DetectRaces && req.recvVC != nil {
		m.curVC().join(req.recvVC)
	}
}

func (m *Machine) chanRecv(c *chanVal) (value, bool) {
	if c == nil {
		m.block(func() bool { return false })
	}
	m.block(func() bool { return m.chanRecvReady(c) })
	v, ok := m.chanRecvNow(c)
	m.event("recv")
	return v, ok
}

func (m *Machine) selectOp(fr *frame, in *ssa.Select) value {
	type st struct {
		c    *chanVal
		send bool
		v    value
	}
	var states []st
	for _, s := range in.States {
		c, _ := m.get(fr, s.Chan).(*chanVal)
		x := st{c: c, send: s.Dir == types.SendOnly}
		if x.send {
			x.v = m.get(fr, s.Send)
		}
		states = append(states, x)
	}
	readyIdx := func() []int {
		var r []int
		for i, s := range states {
			if s.c == nil {
				continue
			}
			if s.send {
				if s.c.closed || len(s.c.buf) < s.c.cap {
					r = append(r, i)
				}
			} else if m.chanRecvReady(s.c) {
				r = append(r, i)
			}
		}
		return r
	}
	rd := readyIdx()
	if len(rd) == 0 {
		if !in.Blocking {
			m.event("selectdefault") // the gated replay waits for an event at every select
			res := tuple{m.st.BV(64, ^uint64(0)), m.st.False}
			for _, s := range in.States {
				if s.Dir == types.RecvOnly {
					res = append(res, m.zero(s.Chan.Type().Underlying().(*types.Chan).Elem()))
				}
			}
			return res
		}
		m.block(func() bool { return len(readyIdx()) > 0 })
		rd = readyIdx()
	}
	pick := rd[0]
	if len(rd) > 1 {
		pick = rd[m.nextDecision(len(rd), func(int) bool { return true })]
	}
	m.event(fmt.Sprintf("select%d", pick))
	res := tuple{m.st.BV(64, uint64(pick)), m.st.False}
	for i, s := range in.States {
		if s.Dir != types.RecvOnly {
			continue
		}
		if i == pick {
			v, ok := m.chanRecvNow(states[i].c)
			res[1] = m.st.Bool(ok)
			res = append(res, v)
		} else {
			res = append(res, m.zero(s.Chan.Type().Underlying().(*types.Chan).Elem()))
		}
	}
	if states[pick].send {
		m.chanSendEv(states[pick].c, states[pick].v, false)
	}
	return res
}

// ---- sync intrinsics ----

func (m *Machine) rtIntrinsics() {
	type in = func(m *Machine, fr *frame, args []value) value
	mu := func(p *value) *mutexState {
		s := m.rt.mutexes[p]
		if s == nil {
			s = &mutexState{}
			m.rt.mutexes[p] = s
		}
		return s
	}
	add := map[string]in{
		"(*sync.WaitGroup).Add": func(m *Machine, fr *frame, a []value) value {
			d, _ := a[1].(*term.Term).ConstVal()
			m.rt.wgs[a[0].(*value)] += int(int64(d))
			return nil
		},
		"(*sync.WaitGroup).Done": func(m *Machine, fr *frame, a []value) value {
			m.release(a[0].(*value))
			m.rt.wgs[a[0].(*value)]--
			return nil
		},
		"(*sync.WaitGroup).Wait": func(m *Machine, fr *frame, a []value) value {
			p := a[0].(*value)
			m.block(func() bool { return m.rt.wgs[p] <= 0 })
			m.acquire(p)
			return nil
		},
		"(*sync.Mutex).Lock": func(m *Machine, fr *frame, a []value) value {
			s := mu(a[0].(*value))
			m.block(func() bool { return !s.locked })
			s.locked = true
			m.acquire(s)
			m.event("lock")
			m.preemptPoint()
			return nil
		},
		"(*sync.Mutex).Unlock": func(m *Machine, fr *frame, a []value) value {
			s := mu(a[0].(*value))
			if !s.locked {
				panic(goPanic{"unlock of unlocked mutex"})
			}
			m.release(s)
			s.locked = false
			m.event("unlock")
			m.preemptPoint()
			return nil
		},
		"(*sync/atomic.Uint64).Load": func(m *Machine, fr *frame, a []value) value {
			m.acquire(a[0].(*value))
			m.event("aload")
			return (*a[0].(*value)).(structure)[2]
		},
		"(*sync/atomic.Uint64).Store": func(m *Machine, fr *frame, a []value) value {
			(*a[0].(*value)).(structure)[2] = a[1]
			m.release(a[0].(*value))
			m.event("astore")
			return nil
		},
		vfPkg + "Drain": func(m *Machine, fr *frame, a []value) value { m.drain(); return nil },
	}
	for k, v := range add {
		m.intrinsics[k] = v
	}
}

var _ = fmt.Sprint
