package interp

import (
	"fmt"
	"go/constant"
	"go/token"
	"go/types"
	"os"
	"runtime"
	"strings"
	"sync"
	"sync/atomic"

	"golang.org/x/tools/go/ssa"
	"golang.org/x/tools/go/ssa/ssautil"

	"gosym/smt"
	"gosym/term"
)

// Decision vector entry: the outcome taken at a choice point.
type Decision struct {
	N      int  // number of alternatives at this point (2 for branches)
	Pick   int  // alternative taken
	Forced bool // only one alternative was feasible
}

// Witness is everything a native replay needs: a model of the symbolic inputs plus the
// concrete per-path choices (Choose values, coins, crash points, schedule trace).
type Witness struct {
	Inputs   map[string]uint64 `json:"inputs"`
	Chooses  []int             `json:"chooses"`
	Coins    []int             `json:"coins,omitempty"`
	Obs      map[string]string `json:"obs,omitempty"`
	Records  map[string]int64  `json:"records,omitempty"`
	CrashOps []int             `json:"crash_ops,omitempty"` // per crash: number of completed mutating fs operations
	Tears    map[string]int    `json:"tears,omitempty"`     // file -> length kept at the last crash
	Trace    []string          `json:"trace,omitempty"`     // completed sync events "gid site kind"
	FSLog    []string          `json:"fslog,omitempty"`
	// Image is the file-system content at the start of the phase in which the violation
	// occurred (after the crash and its torn tails), when all of it is concrete.
	Image map[string][]byte `json:"image,omitempty"`
	// WalClock: (unix second, nanosecond) of every wal.Create of the phase, in order
	WalClock [][2]int64 `json:"wal_clock,omitempty"`
}

type Violation struct {
	Kind      string // assert | panic | race | deadlock
	ID        string
	Known     string // non-empty: inside the region of this listed known finding
	Msg       string
	Phase     int
	W         Witness
	Decisions []Decision
}

// RepoPrefix is the directory prefix of the repository's source files (site labels are
// relative to it).
var RepoPrefix = "/repo/"

type pathEnd struct{ reason string }

type goPanic struct{ msg string }

type obsEntry struct {
	name string
	kind string // bool | u64 | bytes
	ts   []*term.Term
}

// Machine executes one path at a time; Store and Solver persist across paths.
type Machine struct {
	prog   *ssa.Program
	st     *term.Store
	sol    *smt.Solver
	pc     []*term.Term
	prefix []Decision
	taken  []Decision
	pend   *[][]Decision // worklist of unexplored prefixes
	inputs []*term.Term  // named symbolic inputs of this path
	nsym   int
	chooses []int
	coins   []int
	obs     []obsEntry
	known   map[string]*term.Term
	knownOrder []string
	crashOps []int
	tears    map[string]int

	intrinsics map[string]func(m *Machine, fr *frame, args []value) value
	summaries  map[string]value
	globals    map[*ssa.Global]*value
	pcIdx      map[*term.Term]bool
	pcIdxLen   int
	bounds     map[*term.Term]ival
	ivCache    map[*term.Term]ival
	PreHits    int
	rt           *rtState
	ExploreSched bool
	Eager        bool // background goroutines run to quiescence at every sync point of a foreground goroutine
	MaxDev       int
	devs         int
	Deadlocks    int
	pools        map[*value]*poolState
	WithInits    bool
	fs           *FS
	clock        int
	PoolPreempt  bool // preemption points after sync.Pool Get/Put
	SameSecond   bool
	ExploreCoins bool
	CrashAt      int
	LastFS       string
	ExploreCrash bool
	ExploreTears bool
	FilterSummary bool
	DetectRaces  bool
	RaceReports  []string
	site         string   // source position of the last repo-level sync-relevant instruction
	trace        []string // "gid site" per completed gated sync event
	race         *raceState
	MaxCrashes   int
	crashes      int
	records      map[string]int64
	Phase        int
	CrashPoints  int
	Unwind       int
	MaxSteps     int
	pathSteps    int
	SampleEvery  int // sample a cover witness on every N-th completed path (0 = never)
	MaxSamples   int
	Seed         int64
	Params       map[string]int

	// statistics
	Paths      int
	Completed  int
	Steps      int
	Forks      int
	Decided    int
	Violations []Violation
	Samples    []Violation // cover-point witnesses (Kind "cover")
	Covers     map[string]int
	Obligs     int
	Discharged int
	Undecided  int
	UnwindExceeded int
	Infeasible int
	Funcs      map[string]bool
	Intrinsics map[string]bool
	Trace      bool
	violSeen   map[string]int
	pathViol   bool
	sumCache   map[string]*summary
	inSummary  bool
	origins    map[*value]origin
	symArrs    map[*value]*symArr
	phaseImage map[string][]byte
	phaseRecords map[string]int64
	walClock     [][2]int64
	inWalCreate  bool
	hashLogs   map[*value][]*term.Term
	OnlyAsserts  []string // assertion-id prefixes that count (empty = all)
	IgnorePanics bool     // panics/deadlocks are another property's subject
	Abort      *int32 // set by the exploration driver when the job's cap expired
	ZoneOnly   bool // crash points and schedule exploration only while the harness's record "zone" is 1
	StubS2     bool // always use the stub framing for s2 (never the real encoder)
	SymIndex   bool // symbolic indices into scalar slices stay symbolic (ite chains) instead of being case-split
	NoSummaries    bool
	SummariesBuilt int
	SummaryHits    int
}

type frame struct {
	fn     *ssa.Function
	env    map[ssa.Value]value
	block  *ssa.BasicBlock
	prev   *ssa.BasicBlock
	locals []value
	result value
	defers []func()
	loopCnt map[*ssa.BasicBlock]int
}

func NewMachine(prog *ssa.Program, pend *[][]Decision, timeoutMs int, smtlog string) (*Machine, error) {
	st := term.NewStore()
	sol, err := smt.New(st, timeoutMs)
	if err != nil {
		return nil, err
	}
	if smtlog != "" {
		f, _ := os.Create(smtlog)
		sol.Log = f
	}
	m := &Machine{prog: prog, st: st, sol: sol, pend: pend, Covers: map[string]int{}, Funcs: map[string]bool{}, Intrinsics: map[string]bool{}, summaries: map[string]value{}, violSeen: map[string]int{}, Unwind: 64, MaxSteps: 40000000}
	m.initIntrinsics()
	m.rtIntrinsics()
	m.envIntrinsics()
	m.fsIntrinsics()
	m.sysIntrinsics()
	return m, nil
}

func (m *Machine) Solver() *smt.Solver { return m.sol }
func (m *Machine) Store() *term.Store  { return m.st }

func (m *Machine) resetPath(prefix []Decision) {
	m.pc = m.pc[:0]
	m.prefix = prefix
	m.taken = m.taken[:0]
	m.inputs = m.inputs[:0]
	m.chooses = nil
	m.coins = nil
	m.obs = nil
	m.known = nil
	m.knownOrder = nil
	m.crashOps = nil
	m.tears = nil
	m.fs = newFS()
	m.clock = 0
	m.crashes = 0
	m.records = map[string]int64{}
	m.trace = nil
	m.pathSteps = 0
	m.origins = nil
	m.symArrs = nil
	m.hashLogs = nil
	m.pathViol = false
	m.Paths++
}

// Run executes the phase functions in order on one file system.  With a single phase this
// is an ordinary path.  With several, a crash ends the current phase (all goroutines and
// globals are dropped) and starts the next one; a clean end of phase 0 is followed by one
// run of phase 1 (recovery after a clean shutdown is part of the property).
func (m *Machine) Run(fns []*ssa.Function, prefix []Decision) {
	m.resetPath(prefix)
	for i, fn := range fns {
		m.Phase = i
		m.phaseImage = nil
		m.obs = nil // observables belong to the phase that produced them
		m.walClock = nil
		m.phaseRecords = map[string]int64{}
		for k, v := range m.records {
			m.phaseRecords[k] = v
		}
		if i > 0 {
			if img, ok := m.fs.Image(); ok {
				m.phaseImage = img
			}
		}
		end := m.runPhase(fn)
		if end == "abort" {
			return
		}
		if end == "done" && i == 0 && len(fns) > 1 {
			continue
		}
		if end == "done" {
			break
		}
	}
	m.pathDone()
}

// runPhase returns "done", "crash" or "abort".
func (m *Machine) runPhase(fn *ssa.Function) (end string) {
	m.nsym = 0
	m.globals = nil
	m.pcIdx = nil
	m.pcIdxLen = 0
	m.ivCache = nil
	m.pools = nil
	m.devs = 0
	m.rtReset()
	end = "done"
	defer func() {
		r := recover()
		m.rtShutdown()
		if m.race != nil && len(m.race.Races) > 0 {
			for _, rr := range m.race.Races {
				m.reportOther("race", rr)
			}
		}
		if r != nil {
			switch r := r.(type) {
			case pathEnd:
				if r.reason == "unwind" {
					m.UnwindExceeded++
				} else {
					m.Infeasible++
				}
				end = "abort"
			case crashSignal:
				end = "crash"
			case goPanic:
				kind := "panic"
				if strings.HasPrefix(r.msg, "deadlock") {
					kind = "deadlock"
				}
				m.reportOther(kind, fmt.Sprintf("phase %d: %s", m.Phase, r.msg))
				end = "abort"
			default:
				panic(r)
			}
		}
	}()
	if m.WithInits {
		m.RunInits()
	}
	m.call(fn, nil)
	return
}

func (m *Machine) witness(withObs bool) Witness {
	w := Witness{Inputs: m.model(), Chooses: append([]int{}, m.chooses...), Coins: append([]int(nil), m.coins...)}
	// records as they stood when the current phase started (what a native re-run of the phase sees)
	if len(m.phaseRecords) > 0 {
		w.Records = map[string]int64{}
		for k, v := range m.phaseRecords {
			w.Records[k] = v
		}
	}
	w.CrashOps = append([]int(nil), m.crashOps...)
	if len(m.tears) > 0 {
		w.Tears = map[string]int{}
		for k, v := range m.tears {
			w.Tears[k] = v
		}
	}
	w.Trace = append([]string(nil), m.trace...)
	w.Image = m.phaseImage
	w.WalClock = append([][2]int64(nil), m.walClock...)
	if m.fs != nil {
		w.FSLog = append([]string(nil), m.fs.OpLog...)
	}
	if withObs {
		w.Obs = map[string]string{}
		for _, o := range m.obs {
			vals := m.sol.Values(o.ts)
			switch o.kind {
			case "bool":
				w.Obs[o.name] = fmt.Sprintf("%v", vals[0] == 1)
			case "u64":
				w.Obs[o.name] = fmt.Sprintf("%d", vals[0])
			default:
				bs := make([]byte, len(vals))
				for i, v := range vals {
					bs[i] = byte(v)
				}
				w.Obs[o.name] = fmt.Sprintf("%x", bs)
			}
		}
	}
	return w
}

// pathDone: a path ran to the end of the harness.  Optionally sample a cover witness.
func (m *Machine) pathDone() {
	m.Completed++
	if m.SampleEvery <= 0 || len(m.Samples) >= m.MaxSamples {
		return
	}
	if (m.Completed-1)%m.SampleEvery != 0 || m.pathViol {
		return
	}
	if m.sol.Check(m.pc) != smt.Sat {
		return
	}
	m.Samples = append(m.Samples, Violation{Kind: "cover", ID: "end", Phase: m.Phase, W: m.witness(true), Decisions: append([]Decision(nil), m.taken...)})
}

func (m *Machine) knownDisj() *term.Term {
	r := m.st.False
	for _, k := range m.knownOrder {
		r = m.st.Or(r, m.known[k])
	}
	return r
}

// addViolation keeps at most a few witnesses per (kind,id,known) class.
func (m *Machine) addViolation(v Violation) {
	m.pathViol = true
	key := v.Kind + "|" + v.ID + "|" + v.Known
	m.violSeen[key]++
	if m.violSeen[key] > 3 {
		return
	}
	m.pathViol = true
	v.Phase = m.Phase
	v.Decisions = append([]Decision(nil), m.taken...)
	m.Violations = append(m.Violations, v)
}

// ResetAfterEngineError makes the machine usable for the next path after an internal panic
// (goroutines of the failed path are shut down).
func (m *Machine) ResetAfterEngineError() {
	defer func() { recover() }()
	if m.rt != nil && !m.rt.dead {
		m.rtShutdown()
	}
	m.inSummary = false
}

// ViolCounts returns the number of failing paths per violation class.
func (m *Machine) ViolCounts() map[string]int { return m.violSeen }

// reportOther reports a panic / deadlock / race of the current path if the path is feasible.
func (m *Machine) reportOther(kind, msg string) {
	if m.IgnorePanics && (kind == "panic" || kind == "deadlock") {
		return
	}
	kn := m.knownDisj()
	res := m.sol.Check(append(m.pc, m.st.Not(kn)))
	if res == smt.Sat {
		m.addViolation(Violation{Kind: kind, ID: kind, Msg: msg, W: m.witness(false)})
		return
	}
	if res == smt.Unknown {
		m.Undecided++
		return
	}
	for _, k := range m.knownOrder {
		if m.sol.Check(append(m.pc, m.known[k])) == smt.Sat {
			m.addViolation(Violation{Kind: kind, ID: kind, Known: k, Msg: msg, W: m.witness(false)})
			return
		}
	}
}

func (m *Machine) model() map[string]uint64 {
	vals := m.sol.Values(m.inputs)
	out := map[string]uint64{}
	for i, t := range m.inputs {
		out[t.Name] = vals[i]
	}
	return out
}

// ---- choice points ----

func (m *Machine) nextDecision(n int, feasible func(i int) bool) int {
	pos := len(m.taken)
	if pos < len(m.prefix) {
		d := m.prefix[pos]
		if d.N != n {
			panic(fmt.Sprintf("nondeterministic replay: decision %d has N=%d, expected %d", pos, d.N, n))
		}
		m.taken = append(m.taken, d)
		return d.Pick
	}
	var ok []int
	for i := 0; i < n; i++ {
		if feasible(i) {
			ok = append(ok, i)
		}
	}
	if len(ok) == 0 {
		panic(pathEnd{"infeasible"})
	}
	for _, alt := range ok[1:] {
		p := make([]Decision, len(m.taken)+1)
		copy(p, m.taken)
		p[len(m.taken)] = Decision{N: n, Pick: alt}
		*m.pend = append(*m.pend, p)
		m.Forks++
	}
	d := Decision{N: n, Pick: ok[0], Forced: len(ok) == 1}
	m.taken = append(m.taken, d)
	return d.Pick
}

// branch decides a symbolic condition, extending the path condition.
func (m *Machine) branch(c *term.Term) bool {
	if v, ok := c.ConstVal(); ok {
		return v == 1
	}
	nc := m.st.Not(c)
	pos := len(m.taken)
	if pos < len(m.prefix) {
		d := m.prefix[pos]
		m.taken = append(m.taken, d)
		if d.Pick == 1 {
			m.pc = append(m.pc, c)
			return true
		}
		m.pc = append(m.pc, nc)
		return false
	}
	if v, ok := m.presolve(c); ok {
		m.PreHits++
		if v {
			m.taken = append(m.taken, Decision{N: 2, Pick: 1, Forced: true})
			m.pc = append(m.pc, c)
			return true
		}
		m.taken = append(m.taken, Decision{N: 2, Pick: 0, Forced: true})
		m.pc = append(m.pc, nc)
		return false
	}
	// new decision: feasibility of both sides; if one is unsat the other holds
	tSat := m.sol.Check(append(m.pc, c))
	var fSat smt.Result
	if tSat == smt.Unsat {
		fSat = smt.Sat
	} else {
		fSat = m.sol.Check(append(m.pc, nc))
	}
	switch {
	case tSat != smt.Unsat && fSat != smt.Unsat:
		p := make([]Decision, pos+1)
		copy(p, m.taken)
		p[pos] = Decision{N: 2, Pick: 0}
		*m.pend = append(*m.pend, p)
		m.Forks++
		m.taken = append(m.taken, Decision{N: 2, Pick: 1})
		m.pc = append(m.pc, c)
		return true
	case tSat != smt.Unsat:
		m.taken = append(m.taken, Decision{N: 2, Pick: 1, Forced: true})
		m.pc = append(m.pc, c)
		return true
	default:
		m.taken = append(m.taken, Decision{N: 2, Pick: 0, Forced: true})
		m.pc = append(m.pc, nc)
		return false
	}
}

// concretize forks over the feasible values of a small symbolic integer in [lo,hi].
func (m *Machine) concretize(t *term.Term, lo, hi int) int {
	if v, ok := t.ConstVal(); ok {
		return int(int64(v))
	}
	n := hi - lo + 1
	pick := m.nextDecision(n, func(i int) bool {
		return m.sol.Check(append(m.pc, m.st.Eq(t, m.st.BV(t.W, uint64(int64(lo+i)))))) != smt.Unsat
	})
	m.pc = append(m.pc, m.st.Eq(t, m.st.BV(t.W, uint64(int64(lo+pick)))))
	return lo + pick
}

func (m *Machine) assume(c *term.Term) {
	if v, ok := c.ConstVal(); ok {
		if v == 0 {
			panic(pathEnd{"assume false"})
		}
		return
	}
	m.pc = append(m.pc, c)
}

func (m *Machine) assert(id string, c *term.Term) {
	if len(m.OnlyAsserts) > 0 {
		// a harness shared by several properties: only this property's assertions are obligations
		keep := false
		for _, p := range m.OnlyAsserts {
			if strings.HasPrefix(id, p) {
				keep = true
			}
		}
		if !keep {
			return
		}
	}
	m.Obligs++
	if v, ok := c.ConstVal(); ok && v == 1 {
		m.Discharged++
		return
	}
	notc := m.st.Not(c)
	kn := m.knownDisj()
	base := append(append([]*term.Term(nil), m.pc...), notc)
	res := m.sol.Check(append(base, m.st.Not(kn)))
	switch res {
	case smt.Sat:
		// a violation outside every listed known finding
		m.addViolation(Violation{Kind: "assert", ID: id, W: m.witness(false)})
		return // keep exploring the path without assuming the failed assertion
	case smt.Unknown:
		m.Undecided++
		return
	}
	// unsat outside the known regions; inside them a failure is a KNOWN-FINDING
	hit := false
	for _, k := range m.knownOrder {
		if m.sol.Check(append(base, m.known[k])) == smt.Sat {
			m.addViolation(Violation{Kind: "assert", ID: id, Known: k, W: m.witness(false)})
			hit = true
			break
		}
	}
	if !hit {
		m.Discharged++
		m.assume(c)
	}
}

// ---- calls ----

func (m *Machine) call(fn *ssa.Function, args []value) value {
	name := fn.String()
	if in, ok := m.intrinsics[name]; ok {
		m.Intrinsics[name] = true
		return in(m, nil, args)
	}
	if m.skipInit(fn) {
		return nil
	}
	if fn.Blocks == nil {
		panic("no body and no intrinsic for " + name)
	}
	if v, ok := m.trySummary(fn, args); ok {
		m.Funcs[name] = true
		return v
	}
	res := m.callBody(fn, args)
	if opaqueResult[name] {
		// The function was executed from its real SSA (so its state handling is real); its
		// symbolic result is abstracted to an uninterpreted value per distinct result term
		// (hash-consing: same computation => same term => same value).  Sound for proofs:
		// what holds for every such function holds for the real one; a counterexample is
		// validated by native replay.
		if t, ok := res.(*term.Term); ok && !t.IsConst() {
			m.Intrinsics["opaque-result:"+name] = true
			return m.st.Abstract("uf_"+fn.Name(), t)
		}
	}
	return res
}

var opaqueResult = map[string]bool{}

func (m *Machine) callBody(fn *ssa.Function, args []value) value {
	m.Funcs[fn.String()] = true
	fr := &frame{fn: fn, env: make(map[ssa.Value]value)}
	for i, p := range fn.Params {
		fr.env[p] = args[i]
	}
	fr.block = fn.Blocks[0]
	for fr.block != nil {
		m.runBlock(fr)
	}
	return fr.result
}

func (m *Machine) callValue(fv value, args []value) value {
	switch f := fv.(type) {
	case *ssa.Function:
		if f == nil {
			panic(goPanic{"call of nil function"})
		}
		return m.call(f, args)
	case *closure:
		return m.callClosure(f, args)
	}
	panic(fmt.Sprintf("callValue: %T", fv))
}

func (m *Machine) callClosure(c *closure, args []value) value {
	fn := c.Fn
	m.Funcs[fn.String()] = true
	fr := &frame{fn: fn, env: make(map[ssa.Value]value)}
	for i, p := range fn.Params {
		fr.env[p] = args[i]
	}
	for i, fv := range fn.FreeVars {
		fr.env[fv] = c.Env[i]
	}
	fr.block = fn.Blocks[0]
	for fr.block != nil {
		m.runBlock(fr)
	}
	return fr.result
}

func (m *Machine) get(fr *frame, v ssa.Value) value {
	switch v := v.(type) {
	case *ssa.Const:
		return m.constValue(v)
	case *ssa.Function:
		return v
	case *ssa.Builtin:
		return v
	case *ssa.Global:
		return m.global(v)
	}
	if r, ok := fr.env[v]; ok {
		return r
	}
	panic(fmt.Sprintf("get: no value for %T %v in %s", v, v.Name(), fr.fn))
}

func (m *Machine) global(g *ssa.Global) *value {
	if m.globals == nil {
		m.globals = map[*ssa.Global]*value{}
	}
	globals := m.globals
	if p, ok := globals[g]; ok {
		return p
	}
	v := m.zero(g.Type().(*types.Pointer).Elem())
	p := &v
	globals[g] = p
	return p
}

func (m *Machine) constValue(c *ssa.Const) value {
	t := c.Type()
	if c.Value == nil {
		// zero value / nil
		if b, ok := t.Underlying().(*types.Basic); ok && b.Kind() == types.UntypedNil {
			return iface{}
		}
		return m.zero(t)
	}
	if b, ok := t.Underlying().(*types.Basic); ok {
		switch {
		case b.Info()&types.IsBoolean != 0:
			return m.st.Bool(constant.BoolVal(c.Value))
		case b.Info()&types.IsInteger != 0:
			w := intWidth(b)
			if isSigned(b) {
				i, _ := constant.Int64Val(constant.ToInt(c.Value))
				return m.st.BV(w, uint64(i))
			}
			u, _ := constant.Uint64Val(constant.ToInt(c.Value))
			return m.st.BV(w, u)
		case b.Info()&types.IsString != 0:
			return m.strConst(constant.StringVal(c.Value))
		case b.Info()&types.IsFloat != 0:
			f, _ := constant.Float64Val(c.Value)
			return f
		}
	}
	panic(fmt.Sprintf("constValue: %v : %v", c, t))
}

func (m *Machine) runBlock(fr *frame) {
	b := fr.block
	var curInstr ssa.Instruction
	defer func() {
		if r := recover(); r != nil {
			if re, ok := r.(runtime.Error); ok {
				panic(fmt.Sprintf("interpreter error in %s at %v: %v", fr.fn, curInstr, re))
			}
			panic(r)
		}
	}()
	for _, instr := range b.Instrs {
		curInstr = instr
		m.Steps++
		m.pathSteps++
		if m.pathSteps > m.MaxSteps {
			panic(pathEnd{"unwind"})
		}
		if m.pathSteps&1023 == 0 && m.Abort != nil && atomic.LoadInt32(m.Abort) != 0 {
			panic(pathEnd{"abort"}) // the job's wall-clock cap expired in the middle of a path
		}
		m.noteSite(fr, instr)
		if m.Trace {
			fmt.Fprintf(os.Stderr, "  %s: %v\n", fr.fn.Name(), instr)
		}
		switch in := instr.(type) {
		case *ssa.DebugRef:
		case *ssa.Phi:
			for i, pred := range b.Preds {
				if pred == fr.prev {
					fr.env[in] = m.get(fr, in.Edges[i])
					break
				}
			}
		case *ssa.UnOp:
			fr.env[in] = m.unop(fr, in)
		case *ssa.BinOp:
			fr.env[in] = m.binop(in.Op, in.X.Type(), m.get(fr, in.X), m.get(fr, in.Y))
		case *ssa.Call:
			fr.env[in] = m.doCall(fr, &in.Call)
		case *ssa.ChangeType:
			fr.env[in] = m.get(fr, in.X)
		case *ssa.ChangeInterface:
			fr.env[in] = m.get(fr, in.X)
		case *ssa.Convert:
			fr.env[in] = m.convert(in.X.Type(), in.Type(), m.get(fr, in.X))
		case *ssa.MakeInterface:
			fr.env[in] = iface{t: in.X.Type(), v: m.get(fr, in.X)}
		case *ssa.Extract:
			fr.env[in] = m.get(fr, in.Tuple).(tuple)[in.Index]
		case *ssa.Slice:
			fr.env[in] = m.slice(fr, in)
		case *ssa.Alloc:
			v := m.zero(in.Type().(*types.Pointer).Elem())
			fr.env[in] = &v
		case *ssa.MakeSlice:
			n := m.concretize(m.get(fr, in.Len).(*term.Term), 0, 1<<20)
			c := m.concretize(m.get(fr, in.Cap).(*term.Term), 0, 1<<20)
			s := make([]value, n, c)
			et := in.Type().Underlying().(*types.Slice).Elem()
			for i := range s[:c] {
				s[:c][i] = m.zero(et)
			}
			fr.env[in] = s
		case *ssa.MakeClosure:
			var env []value
			for _, b := range in.Bindings {
				env = append(env, m.get(fr, b))
			}
			fr.env[in] = &closure{Fn: in.Fn.(*ssa.Function), Env: env}
		case *ssa.MakeMap:
			fr.env[in] = &hmap{}
		case *ssa.FieldAddr:
			p := m.get(fr, in.X).(*value)
			if p == nil {
				panic(goPanic{"nil pointer dereference (FieldAddr)"})
			}
			fr.env[in] = &(*p).(structure)[in.Field]
		case *ssa.Field:
			fr.env[in] = m.get(fr, in.X).(structure)[in.Field]
		case *ssa.IndexAddr:
			fr.env[in] = m.indexAddr(fr, in)
		case *ssa.Index:
			fr.env[in] = m.index(fr, in)
		case *ssa.Lookup:
			fr.env[in] = m.lookup(fr, in)
		case *ssa.MapUpdate:
			h := m.get(fr, in.Map).(*hmap)
			if m.DetectRaces && h != nil {
				m.raceWrite(&h.cell, site(fr, in))
			}
			m.mapUpdate(h, m.get(fr, in.Key), m.get(fr, in.Value))
		case *ssa.TypeAssert:
			fr.env[in] = m.typeAssert(fr, in)
		case *ssa.Store:
			if r, ok := m.get(fr, in.Addr).(*symRef); ok {
				m.symStore(r, m.get(fr, in.Val).(*term.Term))
				continue
			}
			p := m.get(fr, in.Addr).(*value)
			if p == nil {
				panic(goPanic{"nil pointer dereference (Store)"})
			}
			*p = copyVal(m.get(fr, in.Val))
			if m.DetectRaces {
				m.raceAccess(p, true, site(fr, in))
			}
		case *ssa.Range:
			fr.env[in] = m.rangeIter(fr, in)
		case *ssa.Next:
			fr.env[in] = m.get(fr, in.Iter).(*iter).next(m)
		case *ssa.If:
			c := m.get(fr, in.Cond).(*term.Term)
			fr.prev = b
			if !c.IsConst() {
				// unwinding assertion: a symbolic branch revisited too often in one activation
				if fr.loopCnt == nil {
					fr.loopCnt = map[*ssa.BasicBlock]int{}
				}
				fr.loopCnt[b]++
				if fr.loopCnt[b] > m.Unwind {
					panic(pathEnd{"unwind"})
				}
			}
			if m.branch(c) {
				fr.block = b.Succs[0]
			} else {
				fr.block = b.Succs[1]
			}
			return
		case *ssa.Jump:
			fr.prev = b
			fr.block = b.Succs[0]
			return
		case *ssa.Return:
			switch len(in.Results) {
			case 0:
			case 1:
				fr.result = m.get(fr, in.Results[0])
			default:
				var res tuple
				for _, r := range in.Results {
					res = append(res, m.get(fr, r))
				}
				fr.result = res
			}
			fr.block = nil
			return
		case *ssa.Panic:
			v := m.get(fr, in.X)
			panic(goPanic{fmt.Sprintf("panic: %v (in %s)", m.show(v), fr.fn)})
		case *ssa.RunDefers:
			for i := len(fr.defers) - 1; i >= 0; i-- {
				fr.defers[i]()
			}
			fr.defers = nil
		case *ssa.Go:
			fv, args := m.prepareCall(fr, &in.Call)
			m.event("go")
			m.spawn(fv, args)
			m.preemptPoint() // the new goroutine may run before its creator continues
		case *ssa.MakeChan:
			n := m.concretize(m.get(fr, in.Size).(*term.Term), 0, 1<<16)
			fr.env[in] = &chanVal{cap: n, elem: in.Type().Underlying().(*types.Chan).Elem()}
		case *ssa.Send:
			c, _ := m.get(fr, in.Chan).(*chanVal)
			m.chanSend(c, copyVal(m.get(fr, in.X)))
		case *ssa.Select:
			fr.env[in] = m.selectOp(fr, in)
		case *ssa.Defer:
			fv, args := m.prepareCall(fr, &in.Call)
			dsite := m.posSite(fr, in.Call.Pos())
			fr.defers = append(fr.defers, func() {
				if dsite != "" {
					m.rt.cur.site = dsite
				}
				m.invoke(fv, args)
			})
		default:
			panic(fmt.Sprintf("unsupported instruction %T: %v in %s", instr, instr, fr.fn))
		}
	}
}

func (m *Machine) show(v value) string {
	switch v := v.(type) {
	case iface:
		return fmt.Sprintf("%v(%s)", v.t, m.show(v.v))
	case Str:
		if s, ok := v.Concrete(); ok {
			return fmt.Sprintf("%q", s)
		}
		return "<sym string>"
	case *term.Term:
		return v.String()
	}
	return fmt.Sprintf("%T", v)
}

type callable struct {
	fn  value
	blt *ssa.Builtin
}

func (m *Machine) prepareCall(fr *frame, cc *ssa.CallCommon) (value, []value) {
	var args []value
	var fv value
	if cc.IsInvoke() {
		recv := m.get(fr, cc.Value).(iface)
		if recv.t == nil {
			panic(goPanic{"method call on nil interface"})
		}
		if no, ok := recv.v.(nativeObj); ok {
			fv = nativeCall{no, cc.Method.Name()}
		} else {
			f := m.lookupMethod(recv.t, cc.Method)
			fv = f
			args = append(args, recv.v)
		}
	} else {
		fv = m.get(fr, cc.Value)
	}
	for _, a := range cc.Args {
		args = append(args, m.get(fr, a))
	}
	return fv, args
}

func (m *Machine) lookupMethod(t types.Type, meth *types.Func) *ssa.Function {
	sel := m.prog.MethodSets.MethodSet(t).Lookup(meth.Pkg(), meth.Name())
	if sel == nil {
		panic(fmt.Sprintf("no method %s on %v", meth.Name(), t))
	}
	return m.prog.MethodValue(sel)
}

type nativeCall struct {
	obj  nativeObj
	name string
}

func (m *Machine) invoke(fv value, args []value) value {
	if b, ok := fv.(*ssa.Builtin); ok {
		return m.builtin(b, args)
	}
	if nc, ok := fv.(nativeCall); ok {
		return nc.obj.callMethod(m, nc.name, args)
	}
	return m.callValue(fv, args)
}

func (m *Machine) doCall(fr *frame, cc *ssa.CallCommon) value {
	if b, ok := cc.Value.(*ssa.Builtin); ok {
		var args []value
		for _, a := range cc.Args {
			args = append(args, m.get(fr, a))
		}
		return m.builtinTyped(b, cc, args)
	}
	fv, args := m.prepareCall(fr, cc)
	return m.invoke(fv, args)
}

func (m *Machine) builtin(b *ssa.Builtin, args []value) value {
	return m.builtinTyped(b, nil, args)
}

func (m *Machine) builtinTyped(b *ssa.Builtin, cc *ssa.CallCommon, args []value) value {
	switch b.Name() {
	case "len":
		switch x := args[0].(type) {
		case Str:
			return m.st.BV(64, uint64(len(x.B)))
		case []value:
			return m.st.BV(64, uint64(len(x)))
		case array:
			return m.st.BV(64, uint64(len(x)))
		case *hmap:
			if x == nil {
				return m.st.BV(64, 0)
			}
			return m.st.BV(64, uint64(len(x.keys)))
		case *chanVal:
			if x == nil {
				return m.st.BV(64, 0)
			}
			return m.st.BV(64, uint64(len(x.buf)))
		}
	case "cap":
		switch x := args[0].(type) {
		case []value:
			return m.st.BV(64, uint64(cap(x)))
		}
	case "append":
		s, _ := args[0].([]value)
		switch t := args[1].(type) {
		case []value:
			out := append(s, t...)
			return out
		case Str:
			out := s
			for _, b := range t.B {
				out = append(out, value(b))
			}
			return out
		}
	case "copy":
		dst := args[0].([]value)
		switch src := args[1].(type) {
		case []value:
			return m.st.BV(64, uint64(copy(dst, src)))
		case Str:
			n := 0
			for i := range dst {
				if i >= len(src.B) {
					break
				}
				dst[i] = src.B[i]
				n++
			}
			return m.st.BV(64, uint64(n))
		}
	case "min", "max":
		signed := true
		if cc != nil {
			if bt := basicOf(cc.Args[0].Type()); bt != nil {
				signed = isSigned(bt)
			}
		}
		r := args[0].(*term.Term)
		for _, a := range args[1:] {
			a := a.(*term.Term)
			var lt *term.Term
			if signed {
				lt = m.st.Slt(a, r)
			} else {
				lt = m.st.Ult(a, r)
			}
			if b.Name() == "max" {
				lt = m.st.Not(m.st.Or(lt, m.st.Eq(a, r)))
			}
			r = m.st.Ite(lt, a, r)
		}
		return r
	case "recover":
		return iface{}
	case "close":
		c := args[0].(*chanVal)
		if c == nil {
			panic(goPanic{"close of nil channel"})
		}
		if c.closed {
			panic(goPanic{"close of closed channel"})
		}
		m.release(c)
		c.closed = true
		m.event("close")
		m.preemptPoint() // goroutines released by the close may run before the closer continues
		return nil
	case "delete":
		m.mapDelete(args[0].(*hmap), args[1])
		return nil
	}
	panic(fmt.Sprintf("builtin %s(%T...) unsupported", b.Name(), args[0]))
}

var _ = strings.Contains
var _ = token.ADD

func (m *Machine) posSite(fr *frame, pos token.Pos) string {
	if !pos.IsValid() {
		return ""
	}
	p := fr.fn.Prog.Fset.Position(pos)
	if !strings.HasPrefix(p.Filename, RepoPrefix) {
		return ""
	}
	return fmt.Sprintf("%s:%d:%d", strings.TrimPrefix(p.Filename, RepoPrefix), p.Line, p.Column)
}

func (m *Machine) noteSite(fr *frame, instr ssa.Instruction) {
	var pos token.Pos
	switch in := instr.(type) {
	case *ssa.Call:
		pos = in.Call.Pos()
	case *ssa.Go:
		pos = in.Pos()
	case *ssa.Send:
		pos = in.Pos()
	case *ssa.Select:
		pos = in.Pos()
	case *ssa.UnOp:
		if in.Op != token.ARROW {
			return
		}
		pos = in.Pos()
	default:
		return
	}
	if s := m.posSite(fr, pos); s != "" && m.rt != nil {
		m.rt.cur.site = s
	}
}

// event records a completed gated synchronisation event of the current goroutine.
func (m *Machine) event(kind string) {
	if m.rt == nil {
		return
	}
	m.trace = append(m.trace, fmt.Sprintf("%d %s %s", m.rt.cur.id, m.rt.cur.site, kind))
}

// callReal runs the SSA body of a package-level function, bypassing its intrinsic.
func (m *Machine) callReal(pkg, name string, args []value) value {
	for _, p := range m.prog.AllPackages() {
		if p.Pkg.Path() == pkg {
			fn := p.Func(name)
			saved := m.intrinsics[fn.String()]
			delete(m.intrinsics, fn.String())
			defer func() {
				if saved != nil {
					m.intrinsics[fn.String()] = saved
				}
			}()
			return m.call(fn, args)
		}
	}
	panic("callReal: " + pkg + "." + name)
}

var (
	allFuncsOnce sync.Once
	allFuncs     map[string]*ssa.Function
)

// funcByName finds any function or method of the program by its ssa name.
func (m *Machine) funcByName(name string) *ssa.Function {
	allFuncsOnce.Do(func() {
		allFuncs = map[string]*ssa.Function{}
		for f := range ssautil.AllFunctions(m.prog) {
			allFuncs[f.String()] = f
		}
	})
	return allFuncs[name]
}

// callRealByName runs the real SSA body of a function that has an intrinsic.
func (m *Machine) callRealByName(name string, args []value) value {
	fn := m.funcByName(name)
	if fn == nil {
		panic("callRealByName: " + name)
	}
	return m.callBody(fn, args)
}
