package interp

import (
	"fmt"
	"go/types"
	"strings"

	"golang.org/x/tools/go/ssa"

	"gosym/nat"
	"gosym/term"
)

// Environment-boundary models used by the encode/decode spike:
// sync.Pool, encoding/binary.Write/Read, s2.Writer/Reader (stored framing), package init.

var initWhitelist = map[string]bool{
	"github.com/B1NARY-GR0UP/originium/pkg/bufferpool": true,
	"github.com/B1NARY-GR0UP/originium/table":          true,
	"github.com/B1NARY-GR0UP/originium/utils":          true,
	"github.com/B1NARY-GR0UP/originium/types":          true,
	"github.com/B1NARY-GR0UP/originium":                true,
	"github.com/B1NARY-GR0UP/originium/wal":            true,
	"github.com/B1NARY-GR0UP/originium/pkg/skiplist":   true,
	"github.com/B1NARY-GR0UP/originium/pkg/kway":       true,
	"github.com/B1NARY-GR0UP/originium/pkg/filter":     true,
	"github.com/B1NARY-GR0UP/originium/pkg/watermark":  true,
	"bytes":                                            true,
	"io":                                               true,
}

func (m *Machine) skipInit(fn *ssa.Function) bool {
	if fn.Name() != "init" || fn.Pkg == nil || fn.Signature.Recv() != nil {
		return false
	}
	return !initWhitelist[fn.Pkg.Pkg.Path()]
}

// RunInits executes the package initialisers of the whitelisted packages.
func (m *Machine) RunInits() {
	for _, p := range m.prog.AllPackages() {
		if initWhitelist[p.Pkg.Path()] {
			if f := p.Func("init"); f != nil {
				m.call(f, nil)
			}
		}
	}
}

func (m *Machine) pkgVar(pkg, name string) value {
	for _, p := range m.prog.AllPackages() {
		if p.Pkg.Path() == pkg {
			g := p.Var(name)
			return copyVal(*m.global(g))
		}
	}
	panic("no package var " + pkg + "." + name)
}

// callMethod invokes a method by name on an interface value.
func (m *Machine) callMethod(recv iface, name string, args ...value) value {
	ms := m.prog.MethodSets.MethodSet(recv.t)
	for i := 0; i < ms.Len(); i++ {
		if ms.At(i).Obj().Name() == name {
			fn := m.prog.MethodValue(ms.At(i))
			return m.call(fn, append([]value{recv.v}, args...))
		}
	}
	panic(fmt.Sprintf("no method %s on %v", name, recv.t))
}

type poolState struct {
	private value
	free    []value
}

type s2Writer struct {
	dst  iface
	buf  []value
	cell value // one race-monitor location for the writer's state (an s2.Writer is not safe for concurrent use)
}

type s2Reader struct {
	err     value
	src     iface
	loaded  bool
	content []value
	pos     int
}

func concreteBytes(vs []value) ([]byte, bool) {
	out := make([]byte, len(vs))
	for i, v := range vs {
		c, ok := v.(*term.Term).ConstVal()
		if !ok {
			return nil, false
		}
		out[i] = byte(c)
	}
	return out, true
}

func leBytes(m *Machine, t *term.Term) []value {
	n := t.W / 8
	out := make([]value, n)
	for i := 0; i < n; i++ {
		out[i] = m.st.Extract(t, 8*i+7, 8*i)
	}
	return out
}

func fromLE(m *Machine, bs []value) *term.Term {
	r := bs[0].(*term.Term)
	for i := 1; i < len(bs); i++ {
		r = m.st.Concat(bs[i].(*term.Term), r)
	}
	return r
}

func (m *Machine) envIntrinsics() {
	type in = func(m *Machine, fr *frame, args []value) value
	pools := func() map[*value]*poolState {
		if m.pools == nil {
			m.pools = map[*value]*poolState{}
		}
		return m.pools
	}
	nilErr := iface{}
	add := map[string]in{
		"(*sync.Pool).Get": func(m *Machine, fr *frame, a []value) value {
			if m.PoolPreempt {
				defer m.preemptPoint()
			}
			p := a[0].(*value)
			ps := pools()[p]
			// single-P order of the real sync.Pool: the private slot first, then the shared
			// list (LIFO); a fresh object only when both are empty
			if ps != nil && ps.private != nil {
				v := ps.private
				ps.private = nil
				m.acquire(v.(iface).v)
				return v
			}
			if ps != nil && len(ps.free) > 0 {
				v := ps.free[len(ps.free)-1]
				ps.free = ps.free[:len(ps.free)-1]
				m.acquire(v.(iface).v)
				return v
			}
			st := (*p).(structure)
			newFn := st[len(st)-1]
			return m.callValue(newFn, nil)
		},
		"(*sync.Pool).Put": func(m *Machine, fr *frame, a []value) value {
			if m.PoolPreempt {
				defer m.preemptPoint()
			}
			p := a[0].(*value)
			ps := pools()[p]
			if ps == nil {
				ps = &poolState{}
				pools()[p] = ps
			}
			m.release(a[1].(iface).v)
			if ps.private == nil {
				ps.private = a[1]
			} else {
				ps.free = append(ps.free, a[1])
			}
			return nil
		},
		"encoding/binary.Write": func(m *Machine, fr *frame, a []value) value {
			w := a[0].(iface)
			data := a[2].(iface)
			var bs []value
			switch d := data.v.(type) {
			case *term.Term:
				if d.IsBool() {
					bs = []value{m.st.Ite(d, m.st.BV(8, 1), m.st.BV(8, 0))}
				} else {
					bs = leBytes(m, d)
				}
			case []value:
				bs = append([]value(nil), d...)
			default:
				panic(fmt.Sprintf("binary.Write: unsupported data %T (%v)", data.v, data.t))
			}
			res := m.callMethod(w, "Write", bs).(tuple)
			return res[1]
		},
		"encoding/binary.Read": func(m *Machine, fr *frame, a []value) value {
			r := a[0].(iface)
			data := a[2].(iface)
			p := data.v.(*value)
			var n int
			switch d := (*p).(type) {
			case *term.Term:
				n = d.W / 8
			case []value:
				n = len(d)
			default:
				panic(fmt.Sprintf("binary.Read: unsupported data %T (%v)", *p, data.t))
			}
			buf := make([]value, n)
			for i := range buf {
				buf[i] = m.st.BV(8, 0)
			}
			got := 0
			for got < n {
				res := m.callMethod(r, "Read", buf[got:]).(tuple)
				k, _ := res[0].(*term.Term).ConstVal()
				got += int(k)
				if e := res[1].(iface); e.t != nil {
					if got == n {
						break
					}
					if got == 0 {
						return m.pkgVar("io", "EOF")
					}
					return m.pkgVar("io", "ErrUnexpectedEOF")
				}
			}
			switch d := (*p).(type) {
			case *term.Term:
				_ = d
				*p = fromLE(m, buf)
			case []value:
				copy(d, buf)
			}
			return nilErr
		},
		"github.com/klauspost/compress/s2.NewWriter": func(m *Machine, fr *frame, a []value) value {
			d, _ := a[0].(iface)
			var v value = &s2Writer{dst: d}
			return &v
		},
		"(*github.com/klauspost/compress/s2.Writer).Reset": func(m *Machine, fr *frame, a []value) value {
			w := (*a[0].(*value)).(*s2Writer)
			m.raceAccess(&w.cell, true, "s2.Writer.Reset")
			w.dst, _ = a[1].(iface)
			w.buf = nil
			return nil
		},
		"(*github.com/klauspost/compress/s2.Writer).Write": func(m *Machine, fr *frame, a []value) value {
			w := (*a[0].(*value)).(*s2Writer)
			m.raceAccess(&w.cell, true, "s2.Writer.Write")
			p := a[1].([]value)
			w.buf = append(w.buf, p...)
			return tuple{m.st.BV(64, uint64(len(p))), nilErr}
		},
		"(*github.com/klauspost/compress/s2.Writer).Close": func(m *Machine, fr *frame, a []value) value {
			w := (*a[0].(*value)).(*s2Writer)
			m.raceAccess(&w.cell, true, "s2.Writer.Close")
			n := len(w.buf)
			if raw, ok := concreteBytes(w.buf); ok && !m.StubS2 {
				// concrete content: the real s2 encoder, so files are byte-identical to the real build's
				enc := nat.S2Encode(raw)
				out := make([]value, len(enc))
				for i, b := range enc {
					out[i] = m.st.BV(8, uint64(b))
				}
				res := m.callMethod(w.dst, "Write", out).(tuple)
				return res[1]
			}
			frame := []value{m.st.BV(8, 0x53), m.st.BV(8, 0x32)}
			frame = append(frame, leBytes(m, m.st.BV(32, uint64(n)))...)
			frame = append(frame, w.buf...)
			res := m.callMethod(w.dst, "Write", frame).(tuple)
			return res[1]
		},
		"github.com/klauspost/compress/s2.NewReader": func(m *Machine, fr *frame, a []value) value {
			var v value = &s2Reader{src: a[0].(iface)}
			return &v
		},
		"(*github.com/klauspost/compress/s2.Reader).Read": func(m *Machine, fr *frame, a []value) value {
			r := (*a[0].(*value)).(*s2Reader)
			p := a[1].([]value)
			if !r.loaded {
				r.loaded = true
				var raw []value
				for {
					chunk := make([]value, 64)
					for i := range chunk {
						chunk[i] = m.st.BV(8, 0)
					}
					res := m.callMethod(r.src, "Read", chunk).(tuple)
					k, _ := res[0].(*term.Term).ConstVal()
					raw = append(raw, chunk[:k]...)
					if e := res[1].(iface); e.t != nil {
						break
					}
				}
				// parse concatenated streams: real s2 streams (concrete) and stub frames
				for len(raw) > 0 {
					if c, ok := raw[0].(*term.Term).ConstVal(); !ok || c != 0x53 {
						// a real s2 stream: walk its chunks (type byte + 24-bit LE length) up to the
						// next stub frame or the end, and decode that region with the real reader
						end := 0
						for end < len(raw) {
							if t, ok := raw[end].(*term.Term).ConstVal(); ok && t == 0x53 {
								break
							}
							if end+4 > len(raw) {
								end = len(raw)
								break
							}
							hdr, ok := concreteBytes(raw[end : end+4])
							if !ok {
								panic("s2 reader: symbolic chunk header in a real s2 stream")
							}
							end += 4 + int(hdr[1]) + int(hdr[2])<<8 + int(hdr[3])<<16
						}
						if end > len(raw) {
							end = len(raw)
						}
						region, ok := concreteBytes(raw[:end])
						if !ok {
							panic("s2 reader: symbolic byte inside a real s2 stream")
						}
						dec, err := nat.S2Decode(region)
						for _, b := range dec {
							r.content = append(r.content, m.st.BV(8, uint64(b)))
						}
						if err != nil {
							r.err = m.errVal("s2: " + err.Error())
							break
						}
						raw = raw[end:]
						continue
					}
					if len(raw) < 6 {
						return tuple{m.st.BV(64, 0), m.pkgVar("io", "ErrUnexpectedEOF")}
					}
					ln := fromLE(m, raw[2:6])
					n := m.concretize(ln, 0, len(raw)-6)
					r.content = append(r.content, raw[6:6+n]...)
					raw = raw[6+n:]
				}
			}
			if r.pos >= len(r.content) {
				if r.err != nil {
					return tuple{m.st.BV(64, 0), r.err}
				}
				return tuple{m.st.BV(64, 0), m.pkgVar("io", "EOF")}
			}
			n := copy(p, r.content[r.pos:])
			r.pos += n
			return tuple{m.st.BV(64, uint64(n)), nilErr}
		},
	}
	for k, v := range add {
		m.intrinsics[k] = v
	}
}

var _ = strings.Contains
var _ types.Type
