// Package term: hash-consed SMT terms (Bool and fixed-width bit-vectors) with
// constant folding.  One Store per worker; terms never cross stores.
package term

import (
	"fmt"
	"math/bits"
	"strings"
)

type Op uint8

const (
	OpConst Op = iota // BV constant (val) or Bool constant (val 0/1)
	OpVar
	OpNot  // bool
	OpAnd  // bool n-ary (binary here)
	OpOr   // bool
	OpEq   // any sort -> bool
	OpIte  // cond, a, b
	OpUlt  // bv -> bool
	OpUle
	OpSlt
	OpSle
	OpAdd
	OpSub
	OpMul
	OpUdiv
	OpUrem
	OpSdiv
	OpSrem
	OpBvAnd
	OpBvOr
	OpBvXor
	OpBvNot
	OpNeg
	OpShl
	OpLshr
	OpAshr
	OpConcat  // hi, lo
	OpExtract // a0 = hi, a1 = lo (stored in Hi/Lo)
	OpZext    // to width W
	OpSext
	OpApp // application of an uninterpreted function Name to Args
)

var opNames = map[Op]string{
	OpNot: "not", OpAnd: "and", OpOr: "or", OpEq: "=", OpIte: "ite",
	OpUlt: "bvult", OpUle: "bvule", OpSlt: "bvslt", OpSle: "bvsle",
	OpAdd: "bvadd", OpSub: "bvsub", OpMul: "bvmul", OpUdiv: "bvudiv", OpUrem: "bvurem",
	OpSdiv: "bvsdiv", OpSrem: "bvsrem", OpBvAnd: "bvand", OpBvOr: "bvor", OpBvXor: "bvxor",
	OpBvNot: "bvnot", OpNeg: "bvneg", OpShl: "bvshl", OpLshr: "bvlshr", OpAshr: "bvashr",
	OpConcat: "concat",
}

// Term: W == 0 means Bool, otherwise bit-vector of width W (<= 64).
type Term struct {
	ID     int
	Op     Op
	W      int
	Args   []*Term
	Val    uint64
	Name   string
	Hi, Lo int
	st     *Store
}

func (t *Term) IsConst() bool { return t.Op == OpConst }
func (t *Term) IsBool() bool  { return t.W == 0 }

// ConstVal returns the constant value (zero-extended) and whether t is constant.
func (t *Term) ConstVal() (uint64, bool) { return t.Val, t.Op == OpConst }

type Store struct {
	tab   map[string]*Term
	terms []*Term
	True  *Term
	False *Term
	nvar  int
	shapes map[string]string
}

func NewStore() *Store {
	s := &Store{tab: map[string]*Term{}}
	s.False = s.mk(&Term{Op: OpConst, W: 0, Val: 0})
	s.True = s.mk(&Term{Op: OpConst, W: 0, Val: 1})
	return s
}

func (s *Store) NumTerms() int { return len(s.terms) }
func (s *Store) ByID(id int) *Term { return s.terms[id] }

func (s *Store) mk(t *Term) *Term {
	var sb strings.Builder
	fmt.Fprintf(&sb, "%d:%d:%d:%s:%d:%d", t.Op, t.W, t.Val, t.Name, t.Hi, t.Lo)
	for _, a := range t.Args {
		fmt.Fprintf(&sb, ",%d", a.ID)
	}
	k := sb.String()
	if e, ok := s.tab[k]; ok {
		return e
	}
	t.ID = len(s.terms)
	t.st = s
	s.terms = append(s.terms, t)
	s.tab[k] = t
	return t
}

func mask(w int) uint64 {
	if w >= 64 {
		return ^uint64(0)
	}
	return (uint64(1) << uint(w)) - 1
}

func sext64(v uint64, w int) int64 {
	if w >= 64 {
		return int64(v)
	}
	sh := uint(64 - w)
	return int64(v<<sh) >> sh
}

func (s *Store) BV(w int, v uint64) *Term {
	return s.mk(&Term{Op: OpConst, W: w, Val: v & mask(w)})
}

func (s *Store) Bool(b bool) *Term {
	if b {
		return s.True
	}
	return s.False
}

func (s *Store) Var(name string, w int) *Term {
	return s.mk(&Term{Op: OpVar, W: w, Name: name})
}

func (s *Store) Fresh(prefix string, w int) *Term {
	s.nvar++
	return s.Var(fmt.Sprintf("%s!%d", prefix, s.nvar), w)
}

// ---- boolean ----

func (s *Store) Not(a *Term) *Term {
	if a.Op == OpConst {
		return s.Bool(a.Val == 0)
	}
	if a.Op == OpNot {
		return a.Args[0]
	}
	return s.mk(&Term{Op: OpNot, Args: []*Term{a}})
}

func (s *Store) And(a, b *Term) *Term {
	if a.Op == OpConst {
		if a.Val == 0 {
			return s.False
		}
		return b
	}
	if b.Op == OpConst {
		if b.Val == 0 {
			return s.False
		}
		return a
	}
	if a == b {
		return a
	}
	if a.ID > b.ID {
		a, b = b, a
	}
	return s.mk(&Term{Op: OpAnd, Args: []*Term{a, b}})
}

func (s *Store) Or(a, b *Term) *Term {
	if a.Op == OpConst {
		if a.Val == 1 {
			return s.True
		}
		return b
	}
	if b.Op == OpConst {
		if b.Val == 1 {
			return s.True
		}
		return a
	}
	if a == b {
		return a
	}
	if a.ID > b.ID {
		a, b = b, a
	}
	return s.mk(&Term{Op: OpOr, Args: []*Term{a, b}})
}

func (s *Store) Eq(a, b *Term) *Term {
	if a.W != b.W {
		panic(fmt.Sprintf("Eq width mismatch %d %d", a.W, b.W))
	}
	if a == b {
		return s.True
	}
	if a.Op == OpConst && b.Op == OpConst {
		return s.Bool(a.Val == b.Val)
	}
	if a.W == 0 {
		if a.Op == OpConst {
			if a.Val == 1 {
				return b
			}
			return s.Not(b)
		}
		if b.Op == OpConst {
			if b.Val == 1 {
				return a
			}
			return s.Not(a)
		}
	}
	// ite(c, k1, k2) == k  with constants
	if b.Op == OpConst && a.Op == OpIte && a.Args[1].Op == OpConst && a.Args[2].Op == OpConst {
		t1 := a.Args[1].Val == b.Val
		t2 := a.Args[2].Val == b.Val
		switch {
		case t1 && t2:
			return s.True
		case t1:
			return a.Args[0]
		case t2:
			return s.Not(a.Args[0])
		default:
			return s.False
		}
	}
	if a.Op == OpConst && b.Op == OpIte {
		return s.Eq(b, a)
	}
	if a.ID > b.ID {
		a, b = b, a
	}
	return s.mk(&Term{Op: OpEq, Args: []*Term{a, b}})
}

func (s *Store) Ite(c, a, b *Term) *Term {
	if c.Op == OpConst {
		if c.Val == 1 {
			return a
		}
		return b
	}
	if a == b {
		return a
	}
	if a.W == 0 {
		if a.Op == OpConst && b.Op == OpConst {
			if a.Val == 1 {
				return c
			}
			return s.Not(c)
		}
	}
	return s.mk(&Term{Op: OpIte, W: a.W, Args: []*Term{c, a, b}})
}

// ---- comparisons ----

func (s *Store) cmp(op Op, a, b *Term) *Term {
	if a.W != b.W {
		panic("cmp width mismatch")
	}
	if a.Op == OpConst && b.Op == OpConst {
		var r bool
		switch op {
		case OpUlt:
			r = a.Val < b.Val
		case OpUle:
			r = a.Val <= b.Val
		case OpSlt:
			r = sext64(a.Val, a.W) < sext64(b.Val, b.W)
		case OpSle:
			r = sext64(a.Val, a.W) <= sext64(b.Val, b.W)
		}
		return s.Bool(r)
	}
	if a == b {
		return s.Bool(op == OpUle || op == OpSle)
	}
	return s.mk(&Term{Op: op, Args: []*Term{a, b}})
}

func (s *Store) Ult(a, b *Term) *Term { return s.cmp(OpUlt, a, b) }
func (s *Store) Ule(a, b *Term) *Term { return s.cmp(OpUle, a, b) }
func (s *Store) Slt(a, b *Term) *Term { return s.cmp(OpSlt, a, b) }
func (s *Store) Sle(a, b *Term) *Term { return s.cmp(OpSle, a, b) }

// ---- arithmetic ----

func (s *Store) Bin(op Op, a, b *Term) *Term {
	if a.W != b.W {
		panic(fmt.Sprintf("Bin %v width mismatch %d %d", op, a.W, b.W))
	}
	w := a.W
	if a.Op == OpConst && b.Op == OpConst {
		x, y := a.Val, b.Val
		var r uint64
		switch op {
		case OpAdd:
			r = x + y
		case OpSub:
			r = x - y
		case OpMul:
			r = x * y
		case OpUdiv:
			if y == 0 {
				r = mask(w)
			} else {
				r = x / y
			}
		case OpUrem:
			if y == 0 {
				r = x
			} else {
				r = x % y
			}
		case OpSdiv:
			sx, sy := sext64(x, w), sext64(y, w)
			if sy == 0 {
				if sx < 0 {
					r = 1
				} else {
					r = mask(w)
				}
			} else if sy == -1 {
				r = uint64(-sx)
			} else {
				r = uint64(sx / sy)
			}
		case OpSrem:
			sx, sy := sext64(x, w), sext64(y, w)
			if sy == 0 {
				r = x
			} else if sy == -1 {
				r = 0
			} else {
				r = uint64(sx % sy)
			}
		case OpBvAnd:
			r = x & y
		case OpBvOr:
			r = x | y
		case OpBvXor:
			r = x ^ y
		case OpShl:
			if y >= uint64(w) {
				r = 0
			} else {
				r = x << y
			}
		case OpLshr:
			if y >= uint64(w) {
				r = 0
			} else {
				r = x >> y
			}
		case OpAshr:
			sx := sext64(x, w)
			if y >= uint64(w) {
				y = uint64(w - 1)
			}
			r = uint64(sx >> y)
		default:
			panic("bad binop")
		}
		return s.BV(w, r)
	}
	// identities
	switch op {
	case OpAdd, OpBvOr, OpBvXor:
		if a.Op == OpConst && a.Val == 0 {
			return b
		}
		if b.Op == OpConst && b.Val == 0 {
			return a
		}
	case OpSub, OpShl, OpLshr, OpAshr:
		if b.Op == OpConst && b.Val == 0 {
			return a
		}
	case OpMul:
		if a.Op == OpConst && a.Val == 1 {
			return b
		}
		if b.Op == OpConst && b.Val == 1 {
			return a
		}
		if (a.Op == OpConst && a.Val == 0) || (b.Op == OpConst && b.Val == 0) {
			return s.BV(w, 0)
		}
	case OpBvAnd:
		if (a.Op == OpConst && a.Val == 0) || (b.Op == OpConst && b.Val == 0) {
			return s.BV(w, 0)
		}
		if a.Op == OpConst && a.Val == mask(w) {
			return b
		}
		if b.Op == OpConst && b.Val == mask(w) {
			return a
		}
	}
	switch op {
	case OpAdd, OpMul, OpBvAnd, OpBvOr, OpBvXor:
		if a.ID > b.ID {
			a, b = b, a
		}
	}
	return s.mk(&Term{Op: op, W: w, Args: []*Term{a, b}})
}

func (s *Store) Un(op Op, a *Term) *Term {
	if a.Op == OpConst {
		switch op {
		case OpBvNot:
			return s.BV(a.W, ^a.Val)
		case OpNeg:
			return s.BV(a.W, -a.Val)
		}
	}
	return s.mk(&Term{Op: op, W: a.W, Args: []*Term{a}})
}

func (s *Store) Zext(a *Term, w int) *Term {
	if w == a.W {
		return a
	}
	if w < a.W {
		return s.Extract(a, w-1, 0)
	}
	if a.Op == OpConst {
		return s.BV(w, a.Val)
	}
	return s.mk(&Term{Op: OpZext, W: w, Args: []*Term{a}})
}

func (s *Store) Sext(a *Term, w int) *Term {
	if w == a.W {
		return a
	}
	if w < a.W {
		return s.Extract(a, w-1, 0)
	}
	if a.Op == OpConst {
		return s.BV(w, uint64(sext64(a.Val, a.W)))
	}
	return s.mk(&Term{Op: OpSext, W: w, Args: []*Term{a}})
}

func (s *Store) Extract(a *Term, hi, lo int) *Term {
	w := hi - lo + 1
	if lo == 0 && w == a.W {
		return a
	}
	if a.Op == OpConst {
		return s.BV(w, a.Val>>uint(lo))
	}
	if (a.Op == OpZext || a.Op == OpSext) && hi < a.Args[0].W {
		return s.Extract(a.Args[0], hi, lo)
	}
	if a.Op == OpZext && lo >= a.Args[0].W {
		return s.BV(w, 0)
	}
	return s.mk(&Term{Op: OpExtract, W: w, Args: []*Term{a}, Hi: hi, Lo: lo})
}

func (s *Store) Concat(hi, lo *Term) *Term {
	if hi.Op == OpConst && lo.Op == OpConst {
		return s.BV(hi.W+lo.W, hi.Val<<uint(lo.W)|lo.Val)
	}
	return s.mk(&Term{Op: OpConcat, W: hi.W + lo.W, Args: []*Term{hi, lo}})
}

// ---- uninterpreted abstraction ----

// App applies the uninterpreted function name (result width w) to args.
func (s *Store) App(name string, w int, args []*Term) *Term {
	return s.mk(&Term{Op: OpApp, W: w, Name: name, Args: args})
}

// Abstract replaces t by an application of an uninterpreted function to t's leaf
// variables.  The function symbol is determined by t's *shape* (the DAG with its leaves
// replaced by positional parameters), so two computations of the same shape over equal
// inputs are equal (congruence is left to the solver), while nothing else is known about
// the result.  This over-approximates the real function: unsat stays unsat.
func (s *Store) Abstract(prefix string, t *Term) *Term {
	if t.Op == OpConst {
		return t
	}
	var leaves []*Term
	leafIdx := map[*Term]int{}
	memo := map[*Term]int{}
	var sb strings.Builder
	var walk func(n *Term) int
	walk = func(n *Term) int {
		if id, ok := memo[n]; ok {
			return id
		}
		var id int
		switch n.Op {
		case OpVar, OpApp:
			// leaf (a nested abstraction is a leaf too)
			li, ok := leafIdx[n]
			if !ok {
				li = len(leaves)
				leafIdx[n] = li
				leaves = append(leaves, n)
			}
			id = len(memo)
			fmt.Fprintf(&sb, "%d=L%d:%d;", id, li, n.W)
		default:
			var kids []int
			for _, a := range n.Args {
				kids = append(kids, walk(a))
			}
			id = len(memo)
			fmt.Fprintf(&sb, "%d=%d:%d:%d:%d:%d%v;", id, n.Op, n.W, n.Val, n.Hi, n.Lo, kids)
		}
		memo[n] = id
		return id
	}
	walk(t)
	shape := sb.String()
	name, ok := s.shapes[shape]
	if !ok {
		if s.shapes == nil {
			s.shapes = map[string]string{}
		}
		name = fmt.Sprintf("%s_%d", prefix, len(s.shapes))
		s.shapes[shape] = name
	}
	return s.App(name, t.W, leaves)
}

// ---- printing ----

func sortStr(w int) string {
	if w == 0 {
		return "Bool"
	}
	return fmt.Sprintf("(_ BitVec %d)", w)
}

func SortStr(w int) string { return sortStr(w) }

// Ref is the SMT-LIB name used for t once defined ("t<ID>") or its literal.
func (t *Term) Ref() string {
	switch t.Op {
	case OpConst:
		if t.W == 0 {
			if t.Val == 1 {
				return "true"
			}
			return "false"
		}
		return fmt.Sprintf("(_ bv%d %d)", t.Val, t.W)
	case OpVar:
		return "|" + t.Name + "|"
	}
	return fmt.Sprintf("t%d", t.ID)
}

// Body prints the defining expression of t in terms of its children's Refs.
func (t *Term) Body() string {
	switch t.Op {
	case OpConst, OpVar:
		return t.Ref()
	case OpExtract:
		return fmt.Sprintf("((_ extract %d %d) %s)", t.Hi, t.Lo, t.Args[0].Ref())
	case OpZext:
		return fmt.Sprintf("((_ zero_extend %d) %s)", t.W-t.Args[0].W, t.Args[0].Ref())
	case OpSext:
		return fmt.Sprintf("((_ sign_extend %d) %s)", t.W-t.Args[0].W, t.Args[0].Ref())
	}
	var sb strings.Builder
	sb.WriteString("(")
	if t.Op == OpApp {
		sb.WriteString(t.Name)
	}
	sb.WriteString(opNames[t.Op])
	for _, a := range t.Args {
		sb.WriteString(" ")
		sb.WriteString(a.Ref())
	}
	sb.WriteString(")")
	return sb.String()
}

func (t *Term) String() string {
	if t.Op == OpConst || t.Op == OpVar {
		return t.Ref()
	}
	return fmt.Sprintf("t%d=%s", t.ID, t.Body())
}

var _ = bits.Len
