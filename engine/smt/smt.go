// Package smt drives one long-lived solver process over stdin/stdout.
// Terms are defined once (define-fun / declare-const) and queries are
// check-sat-assuming over named Boolean terms, so no push/pop is needed.
package smt

import (
	"bufio"
	"fmt"
	"io"
	"os/exec"
	"strings"
	"time"

	"gosym/term"
)

type Result int

const (
	Unsat Result = iota
	Sat
	Unknown
)

func (r Result) String() string { return [...]string{"unsat", "sat", "unknown"}[r] }

type Solver struct {
	cmd     *exec.Cmd
	in      io.WriteCloser
	out     *bufio.Reader
	defined map[int]bool
	funs    map[string]bool
	st      *term.Store
	Queries int
	NSat    int
	NUnsat  int
	NUnk    int
	Time    time.Duration
	Log     io.Writer
}

func New(st *term.Store, timeoutMs int) (*Solver, error) {
	cmd := exec.Command("z3", "-in", fmt.Sprintf("-t:%d", timeoutMs))
	in, err := cmd.StdinPipe()
	if err != nil {
		return nil, err
	}
	out, err := cmd.StdoutPipe()
	if err != nil {
		return nil, err
	}
	cmd.Stderr = cmd.Stdout
	if err := cmd.Start(); err != nil {
		return nil, err
	}
	s := &Solver{cmd: cmd, in: in, out: bufio.NewReader(out), defined: map[int]bool{}, st: st}
	s.send("(set-option :produce-models true)")
	return s, nil
}

func (s *Solver) Close() {
	s.in.Close()
	s.cmd.Wait()
}

func (s *Solver) send(line string) {
	if s.Log != nil {
		fmt.Fprintln(s.Log, line)
	}
	io.WriteString(s.in, line)
	io.WriteString(s.in, "\n")
}

func (s *Solver) define(t *term.Term) {
	if s.defined[t.ID] {
		return
	}
	// iterative post-order
	stack := []*term.Term{t}
	for len(stack) > 0 {
		n := stack[len(stack)-1]
		if s.defined[n.ID] {
			stack = stack[:len(stack)-1]
			continue
		}
		ready := true
		for _, a := range n.Args {
			if !s.defined[a.ID] {
				stack = append(stack, a)
				ready = false
			}
		}
		if !ready {
			continue
		}
		stack = stack[:len(stack)-1]
		s.defined[n.ID] = true
		switch n.Op {
		case term.OpConst:
		case term.OpVar:
			s.send(fmt.Sprintf("(declare-const %s %s)", n.Ref(), term.SortStr(n.W)))
		case term.OpApp:
			if !s.funs[n.Name] {
				if s.funs == nil {
					s.funs = map[string]bool{}
				}
				s.funs[n.Name] = true
				var as []string
				for _, a := range n.Args {
					as = append(as, term.SortStr(a.W))
				}
				s.send(fmt.Sprintf("(declare-fun %s (%s) %s)", n.Name, strings.Join(as, " "), term.SortStr(n.W)))
			}
			s.send(fmt.Sprintf("(define-fun %s () %s %s)", n.Ref(), term.SortStr(n.W), n.Body()))
		default:
			s.send(fmt.Sprintf("(define-fun %s () %s %s)", n.Ref(), term.SortStr(n.W), n.Body()))
		}
	}
}

func (s *Solver) readLine() string {
	line, err := s.out.ReadString('\n')
	if err != nil {
		panic("solver died: " + err.Error())
	}
	return strings.TrimSpace(line)
}

// Check decides satisfiability of the conjunction of the given Boolean terms.
func (s *Solver) Check(lits []*term.Term) Result {
	names := make([]string, 0, len(lits))
	for _, l := range lits {
		if v, ok := l.ConstVal(); ok {
			if v == 0 {
				return Unsat
			}
			continue
		}
		s.define(l)
		// check-sat-assuming needs literals: name or (not name)
		names = append(names, l.Ref())
	}
	t0 := time.Now()
	s.send("(check-sat-assuming (" + strings.Join(names, " ") + "))")
	ans := s.readLine()
	s.Time += time.Since(t0)
	s.Queries++
	switch ans {
	case "sat":
		s.NSat++
		return Sat
	case "unsat":
		s.NUnsat++
		return Unsat
	case "unknown":
		s.NUnk++
		return Unknown
	}
	panic("solver said: " + ans)
}

// Values returns the model values of the given terms after a Sat answer.
func (s *Solver) Values(ts []*term.Term) []uint64 {
	res := make([]uint64, len(ts))
	for i, t := range ts {
		if v, ok := t.ConstVal(); ok {
			res[i] = v
			continue
		}
		s.define(t)
		s.send("(get-value (" + t.Ref() + "))")
		line := s.readLine()
		// ((name #x0a)) or ((name #b101)) or ((name true))
		f := strings.Fields(strings.Trim(line, "()"))
		v := f[len(f)-1]
		v = strings.Trim(v, "()")
		switch {
		case strings.HasPrefix(v, "#x"):
			fmt.Sscanf(v[2:], "%x", &res[i])
		case strings.HasPrefix(v, "#b"):
			var x uint64
			for _, c := range v[2:] {
				x = x<<1 | uint64(c-'0')
			}
			res[i] = x
		case v == "true":
			res[i] = 1
		case v == "false":
			res[i] = 0
		default:
			panic("cannot parse value: " + line)
		}
	}
	return res
}
