#!/usr/bin/env python3
"""Regenerates /verif/MANIFEST.json from the table below (run by hand after editing)."""
import json, subprocess

TECH = "bounded symbolic execution of the real go/ssa of /repo + SMT (z3; z3-new/cvc5 cross-check), counterexamples replayed natively"
claimed = {
 "C01": ("whole engine through the public API on the file-system model: symbolic values and memtable threshold, forked op/key/config choices, lazy/eager/explored background schedules; model-map oracle after every commit", "4.C01"),
 "C02": ("C01's workload with Close/Open cycles at every position, per-run configuration changes, model-map oracle across reopen", "4.C02"),
 "C03": ("two-phase crash harness: crash decision before every mutating file operation of every goroutine (process-crash model), fresh process recovers on the same file-system model; acknowledged-commit oracle; native confirmation by running the real recovery on the engine's crash image", "4.C03"),
 "C04": ("C03's harness, assertion: the in-flight multi-key transaction is visible completely or not at all", "4.C04"),
 "C05": ("shared transaction harness: library scripts (write skew, long reader, multi-key writer, read-modify-write, abandoned writer, delete, misuse) under every interleaving of their API calls, symbolic values and memtable threshold (rotation/flush/compaction with version GC between steps); assertion: every Get equals the snapshot at Begin overlaid with own writes", "4.C05"),
 "C06": ("shared transaction harness; assertion: with the commit order as serial order every store read of a committed transaction equals the state just before its commit (plus the snapshot assertions for read-only transactions)", "4.C06"),
 "C07": ("shared transaction harness; assertion: Commit returns ErrConflictTxn exactly when a key read from the store was written by a transaction committed after the snapshot", "4.C07"),
 "C08": ("shared transaction harness; assertions: documented errors for misuse, failed Update closures and abandoned writers leave no trace in later reads, after flush/compaction and after reopen", "4.C08"),
 "C09": ("real flushToL0/checkAndCompact/compactL0/compactLN/discardStaleEntries/kway merge/recover on symbolic tables, watermark set through the real readMark; lookup-level oracle for every permitted read", "4.C09"),
 "C10": ("real flushToL0/searchLowerBound/Index search/Data.LowerBound/fetch/recover on symbolic sorted tables, symbolic block size and query; brute-force component oracle", "4.C10"),
 "C11": ("Decode(Encode(x)) == x and stability of returned bytes for Data/Index/Footer/Meta/table.Build/WAL with symbolic content; 16-bit boundary lengths (listed known finding)", "4.C11"),
 "C12": ("writer goroutine(s), a reader transaction and the engine's real flusher/compactor and watermark goroutines under the cooperative runtime: every scheduler pick at blocking points plus bounded preemptions, vector-clock happens-before race monitor over all interpreted loads/stores, panic detection, snapshot oracle on the reader's results; panics confirmed by gated native replay of the schedule, races by the Go race detector", "4.C12"),
 "C13": ("real watermark goroutine under the cooperative runtime, K marks with symbolic 64-bit indices/kinds, reference count oracle; WaitForMark with cancellable context; overflow of the mark channel", "4.C13"),
 "C14": ("C03's harness under the torn-tail storage model: every unsynced file tail cut at every length", "4.C14"),
 "C15": ("C12's harness without the race monitor: a global state in which an API goroutine is blocked and nothing is runnable is a deadlock; after Close the flusher has stopped and the directory reopens with the complete state", "4.C15"),
 "C16": ("real filter.Build/New/Add/Contains with symbolic key bytes, bit set with symbolic indices (read-over-write), murmur3 as an uninterpreted function of seed and written bytes (real SSA runs for concrete keys)", "4.C16"),
 "C17": ("real skiplist Set/Delete/Get/LowerBound/Scan/All with symbolic keys, values, level coins against a symbolic slot-array sorted map", "4.C17"),
}
pending = {
}
fixes = subprocess.check_output(["git", "-C", "/repo", "log", "--format=%H %s"]).decode().splitlines()
fix_commits = [l.split()[0] for l in fixes if l.split(" ", 1)[1].startswith("fix:")]
m = {
 "version": 1,
 "setup_cmd": "cd /verif/engine && /verif/tools/go build -o /verif/bin/vcheck ./cmd/vcheck",
 "hooks": {
  "guard": "verif",
  "enable": "none needed: harnesses, the harness API and replay instrumentation are injected with go/packages Overlay and `go test -overlay`; no guarded code exists in /repo",
  "baseline_off_cmd": "cd /repo && /verif/tools/go test -json -vet=off -count=1 -timeout 25m ./...",
  "source_commits": list(reversed(fix_commits)),
  "add_only": True,
 },
 "engines": [{"name": "gosym/vcheck", "path": "/verif/engine", "serves_properties": sorted(claimed), "kind_free_text": "symbolic interpreter of go/ssa (x/tools v0.29.0) with SMT-LIB2 queries to z3 -in; harnesses in /verif/harness, harness API /verif/vf"}],
 "checks": [],
 "not_applicable": [{"property_id": k, "reason": v} for k, v in sorted(pending.items())],
 "notes": "fix: commits in /repo are listed under hooks.source_commits (they are unguarded repairs of genuine defects, see known_findings.json and DESIGN.md section 7); no hook code exists.",
}
for pid in sorted(claimed):
    text, ref = claimed[pid]
    m["checks"].append({
     "property_id": pid,
     "quick_cmd": f"/verif/bin/vcheck -prop {pid} -tier quick",
     "thorough_cmd": f"/verif/bin/vcheck -prop {pid} -tier thorough",
     "evidence_file": f"/verif/evidence/{pid}.json",
     "replay_cmd_template": "/verif/bin/vcheck -replay {path}",
     "engine": "gosym/vcheck",
     "level_claimed": {"category": "model_checking", "text": "bounded symbolic model checking of the real code: " + text + ". Holds for every value of the symbolic inputs on every explored path class inside the bounds written into the evidence file; nothing is claimed outside them.", "design_ref": "DESIGN.md " + ref},
     "level_note": "trusted: the symbolic interpreter's go/ssa semantics and the environment-boundary models of DESIGN.md 2.4 (validated on every run by replaying cover witnesses natively), z3 4.8.12 (thorough: cross-checked on z3 5.1.0 and cvc5), harness assumptions listed in the evidence file",
     "technique": TECH,
    })
json.dump(m, open("/verif/MANIFEST.json", "w"), indent=1)
print("claimed", len(claimed), "pending", len(pending))
