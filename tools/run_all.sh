#!/bin/sh
# runs every registered check of a tier against /repo and reports exit codes (evidence files are rewritten)
tier=${1:-quick}
cd /verif
mkdir -p .work/logs
for p in C01 C02 C03 C04 C05 C06 C07 C08 C09 C10 C11 C12 C13 C14 C15 C16 C17; do
  s=$(date +%s)
  VERIF_SEED=${VERIF_SEED:-1} /verif/bin/vcheck -prop $p -tier $tier > .work/logs/$p-$tier.log 2>&1
  rc=$?
  e=$(date +%s)
  echo "$p rc=$rc $((e-s))s $(tail -1 .work/logs/$p-$tier.log | cut -c1-150)"
done
