#!/usr/bin/env python3
"""Writes /verif/seeded/<id>/meta.json from the table below plus the latest validation report
(/verif/.work/seeds_final.report, produced by tools/validate_all_seeds.sh on /verif/seeded)."""
import json, os, re, sys

D = {
 "C01-m1": ("C01", "level.go searchLowerBound: stop at the shallowest level with a hit", "three flushes whose key ranges make compactL0 move a newer table to L1 while an older disjoint table stays in L0 (L0TargetNum 2); read served from sstables"),
 "C01-m2": ("C01", "db.go rawset: swap memtable, send to the flusher, only then PushBack", "rotation while the flusher takes the memtable before it is on the immutables list (ImmutableBuffer 0); the flushed memtable stays on the list and later shadows newer table data"),
 "C02-m1": ("C02", "db.go run: leave the loop after one more flush once Close was signalled", "two or more memtables queued at Close and a newer version of one of their keys in the active memtable; reopen replays the leftover wals"),
 "C02-m2": ("C02", "level.go maxLevelIdx: take the idx of the last table of the level", "more than ten tables in a level, reopen (file names sort lexicographically), a further flush overwrites level-10.db"),
 "C03-m1": ("C03", "memtable.go recover: delete the old wal right after reading it", "crash, then a second crash during recovery between the wal delete and the last re-logged entry"),
 "C03-m2": ("C03", "level.go writeTable: O_TRUNC dropped on the .tmp file", "crash between write and rename of a .tmp table; after recovery a shorter table written under the same name; reopen"),
 "C04-m1": ("C04", "db.go rawset: split a batch at the memtable threshold into two wal appends", "multi-key transaction arriving in a nearly full memtable; crash between the two appends"),
 "C04-m2": ("C04", "memtable.go recover: delete the old wal before re-logging its entries", "crash, then crash again inside recovery: an acknowledged multi-key transaction is cut in half"),
 "C05-m1": ("C05", "oracle.go doneRead: guard flag removed, readMark.Done sent twice per committing writer", "long-lived reader sharing a read timestamp with a committing writer; overwrite; flush + compaction discards the versions the reader needs"),
 "C05-m2": ("C05", "txn.go Commit: doneCommit before the writes are applied", "a Begin that falls between timestamp allocation and the memtable insert, then reads before and after the insert"),
 "C06-m1": ("C06", "oracle.go cleanUpCommittedTxns: prune with commitMark instead of readMark", "T1 reads x; T2 commits x; an unrelated commit prunes T2's record; T1 commits without conflict (lost update)"),
 "C06-m2": ("C06", "db.go search: immutables walked oldest first", "two unflushed frozen memtables holding different versions of a key"),
 "C07-m1": ("C07", "txn.go Get: read fingerprint recorded only when the key was found", "read of an absent or deleted key, then another transaction inserts it, then commit"),
 "C07-m2": ("C07", "oracle.go cleanUpCommittedTxns: commitMark instead of readMark", "long-running reader, overwrite of its key, one or two further commits, then its commit"),
 "C08-m1": ("C08", "txn.go Discard: idempotence guard tests doneRead instead of discarded", "reuse of a transaction handle after a successful non-empty commit"),
 "C08-m2": ("C08", "txn.go Commit: conflict branch falls through and writes at commit timestamp 0", "a real conflict on a transaction that inserts a never-committed key"),
 "C09-m1": ("C09", "level.go discardStaleEntries: group by the text before the FIRST '@'", "user keys containing '@' that share the text before it, with versions at or below a non-zero watermark in one compaction"),
 "C09-m2": ("C09", "level.go maxLevelIdx: idx of the last table", "eleven or more tables in a level, restart, one more compaction into that level"),
 "C10-m1": ("C10", "level.go searchLowerBound: break after the first level with a hit", "newer version in a deeper level than an older one"),
 "C10-m2": ("C10", "table/index.go SearchLowerBound: choose the block by the next block's start key", "target that falls between two data blocks"),
 "C11-m1": ("C11", "table/table.go Build returns the pooled buffer's bytes", "any later encoder call before the bytes are consumed"),
 "C11-m2": ("C11", "utils.Decompress: io.LimitReader at 64 KiB", "a block whose raw content exceeds 64 KiB"),
 "C12-m1": ("C12", "txn.go Commit: writeLock released right after newCommitTs", "two overlapping commits, one of which rotates the memtable"),
 "C12-m2": ("C12", "db.go rawset: db.mu held across the send to the flusher", "flush queue full while the flusher needs db.mu (ImmutableBuffer+2 rotations within one flush)"),
 "C13-m1": ("C13", "watermark.go process: doneUntil stored after the waiters are released", "a parked waiter reading DoneUntil right after WaitForMark returned nil"),
 "C13-m2": ("C13", "watermark.go process: indices at or below the watermark are not pushed on the heap", "watermark at x, Begin of an index <= x, then Begin+Done of a larger index"),
 "C14-m1": ("C14", "wal/wal.go Read: torn-body check uses the length taken before the prefix was consumed", "last wal record losing only its final 1-8 bytes"),
 "C14-m2": ("C14", "level.go writeTable: os.WriteFile without fsync before the rename", "crash that drops unsynced bytes of a renamed table whose wal is already deleted"),
 "C15-m1": ("C15", "db.go rawset: defer db.mu.Unlock(), send inside the critical section", "queue full while the flusher is mid-flush"),
 "C16-m1": ("C16", "filter.go Contains: Reset moved after the bit test (skipped on the early return)", "a lookup that answers 'absent' followed by a member lookup on the same filter"),
 "C16-m2": ("C16", "filter.go Build: key cut at the first '@'", "a user key containing '@'"),
 "C17-m1": ("C17", "skiplist.go Delete: level shrink tests the predecessor's link instead of the head's", "Set a; Set b; Delete b; Delete a; Set c with a tall tower for a (maxLevel >= 2)"),
 "C17-m2": ("C17", "skiplist.go Set: early return when the value bytes are equal", "re-Set of the same versioned key with the same value and a flipped tombstone flag"),
}
STRENGTHENED = {  # seeds that the checks missed when they arrived; what was added
 "C01-m1": "job c01-n3-ops2-k3-l0t2 (L0TargetNum 2, three 2-key transactions); C10 level placement",
 "C01-m2": "gated-replay fallback for sequentially replayed jobs (the engine found it at once, the free-running native replay did not reproduce it)",
 "C02-m1": "job c02-n3-close-with-pending-flushes (stalled flusher)",
 "C03-m2": "recovery phase extended by further commits that drive a compaction under the recovered watermark",
 "C04-m1": "workload W3 (multi-key transaction into a nearly full memtable), job crash-w3-straddle",
 "C04-m2": "assertion C04.acked-atomic and the 2-crash job in the quick tier",
 "C05-m2": "harness VH_CONC4 (Begin during another goroutine's commit)",
 "C06-m2": "job txn-2-nodrain-queue (several unflushed memtables)",
 "C06-m1": "extra third-party commit at a chosen position (job txn-2-extracommit)",
 "C07-m2": "same as C06-m1",
 "C08-m1": "library script 11 (use after a successful commit)",
 "C09-m1": "KLMASK (which entries have 2-byte keys): a 1-byte key followed by its '@'-extension in one table",
 "C09-m2": "job c09-manyfiles-recover (12 tables in L0, recovery, flush, compaction)",
 "C10-m1": "param LEVELS: tables placed at arbitrary levels",
 "C12-m1": "harness VH_CONC3 (two pre-begun blind writers, rotation on every commit)",
 "C13-m1": "waiter reads DoneUntil itself; start handshake; preemption point after close",
 "C13-m2": "oracle corrected: DoneUntil must not ADVANCE while an index at or below it is unfinished",
 "C16-m1": "non-member probes between member probes (job c16-n3-nonmember)",
 "C17-m1": "thorough job with the fixed operation sequence Set Set Delete Delete Set",
}

MEASURED_MISS = {"C01-m2", "C02-m1", "C03-m2", "C04-m1", "C05-m2", "C06-m2", "C09-m1", "C09-m2", "C12-m1", "C13-m1", "C13-m2", "C17-m1"}

def main():
    rep = {}
    path = "/verif/.work/seeds_final.report"
    if os.path.exists(path):
        for blk in open(path).read().split("=== ")[1:]:
            lines = blk.splitlines()
            name = lines[0].split()[0].replace("/", "-")
            tier = re.search(r"\((\w+)\)", lines[0]).group(1)
            res = [l for l in lines if l.startswith("RESULT")]
            chk = [l for l in lines if l.startswith("CHECK")]
            hits = [l.strip() for l in lines if l.startswith("   ")][:4]
            rep.setdefault(name, []).append({"tier": tier, "validation": res[0][7:].strip() if res else "", "check": chk[0][6:].strip() if chk else "", "first_reports": hits})
    for sid, (prop, what, needs) in sorted(D.items()):
        d = f"/verif/seeded/{sid}"
        if not os.path.isdir(d):
            continue
        runs = rep.get(sid, [])
        detected = [r for r in runs if " rc=1 " in " " + r["check"] + " "]
        meta = {
            "id": sid, "property": prop, "change": what, "needs_to_manifest": needs,
            "origin": "independent sub-agent given only the property text and a scratch worktree",
            "confirmed": "tools/validate_seed.sh: patch applies on a scratch worktree of /repo HEAD, builds, existing suite passes with it, demonstration passes without and fails with it",
            "what_was_run": [f"tools/validate_seed.sh seeded/{sid} {prop} {r['tier']}  ->  {r['validation']} ; {r['check']}" for r in runs],
            "detected_by": ({"tier": detected[0]["tier"], "reports": detected[0]["first_reports"]} if detected else None),
            "missed_when_it_arrived": ("measured: the first validation run of the then-current checks did not report it" if sid in MEASURED_MISS else ("predicted from the sub-agent's description; the checks were strengthened before the first validation run" if sid in STRENGTHENED else "no: reported by the checks as they were")),
            "strengthening": STRENGTHENED.get(sid, ""),
        }
        json.dump(meta, open(d + "/meta.json", "w"), indent=1)
    print("meta written for", len([s for s in D if os.path.isdir(f'/verif/seeded/{s}')]))

main()
