#!/usr/bin/env python3
"""Writes /verif/seeded/<id>/meta.json from the table below plus the latest validation report
(/verif/.work/seeds_final.report, produced by tools/validate_all_seeds.sh on /verif/seeded)."""
import json, os, re, sys

D = {
 "C01-m1": ("C01", "level.go searchLowerBound: stop at the shallowest level with a hit", "three flushes whose key ranges make compactL0 move a newer table to L1 while an older disjoint table stays in L0 (L0TargetNum 2); read served from sstables"),
 "C01-m2": ("C01", "db.go rawset: swap memtable, send to the flusher, only then PushBack", "rotation while the flusher takes the memtable before it is on the immutables list (ImmutableBuffer 0); the flushed memtable stays on the list and later shadows newer table data"),
 "C02-m1": ("C02", "db.go run: leave the loop after one more flush once Close was signalled", "two or more memtables queued at Close and a newer version of one of their keys in the active memtable; reopen replays the leftover wals"),
 "C02-m2": ("C02", "level.go maxLevelIdx: take the idx of the last table of the level", "more than ten tables in a level, reopen (file names sort lexicographically), a further flush overwrites level-10.db"),
 "C03-m1": ("C03", "memtable.go recover: delete the old wal right after reading it", "crash, then a second crash during recovery between the wal delete and the last re-logged entry"),
 "C03-m2": ("C03", "level.go writeTable: O_TRUNC dropped on the .tmp file", "crash between write and rename of a .tmp table; after recovery a shorter table written under the same name; reopen"),
 "C04-m1": ("C04", "db.go rawset: split a batch at the memtable threshold into two wal appends", "multi-key transaction arriving in a nearly full memtable; crash between the two appends"),
 "C04-m2": ("C04", "memtable.go recover: delete the old wal before re-logging its entries", "crash, then crash again inside recovery: an acknowledged multi-key transaction is cut in half"),
 "C05-m1": ("C05", "oracle.go doneRead: guard flag removed, readMark.Done sent twice per committing writer", "long-lived reader sharing a read timestamp with a committing writer; overwrite; flush + compaction discards the versions the reader needs"),
 "C05-m2": ("C05", "txn.go Commit: doneCommit before the writes are applied", "a Begin that falls between timestamp allocation and the memtable insert, then reads before and after the insert"),
 "C06-m1": ("C06", "oracle.go cleanUpCommittedTxns: prune with commitMark instead of readMark", "T1 reads x; T2 commits x; an unrelated commit prunes T2's record; T1 commits without conflict (lost update)"),
 "C06-m2": ("C06", "db.go search: immutables walked oldest first", "two unflushed frozen memtables holding different versions of a key"),
 "C07-m1": ("C07", "txn.go Get: read fingerprint recorded only when the key was found", "read of an absent or deleted key, then another transaction inserts it, then commit"),
 "C07-m2": ("C07", "oracle.go cleanUpCommittedTxns: commitMark instead of readMark", "long-running reader, overwrite of its key, one or two further commits, then its commit"),
 "C08-m1": ("C08", "txn.go Discard: idempotence guard tests doneRead instead of discarded", "reuse of a transaction handle after a successful non-empty commit"),
 "C08-m2": ("C08", "txn.go Commit: conflict branch falls through and writes at commit timestamp 0", "a real conflict on a transaction that inserts a never-committed key"),
 "C09-m1": ("C09", "level.go discardStaleEntries: group by the text before the FIRST '@'", "user keys containing '@' that share the text before it, with versions at or below a non-zero watermark in one compaction"),
 "C09-m2": ("C09", "level.go maxLevelIdx: idx of the last table", "eleven or more tables in a level, restart, one more compaction into that level"),
 "C10-m1": ("C10", "level.go searchLowerBound: break after the first level with a hit", "newer version in a deeper level than an older one"),
 "C10-m2": ("C10", "table/index.go SearchLowerBound: choose the block by the next block's start key", "target that falls between two data blocks"),
 "C11-m1": ("C11", "table/table.go Build returns the pooled buffer's bytes", "any later encoder call before the bytes are consumed"),
 "C11-m2": ("C11", "utils.Decompress: io.LimitReader at 64 KiB", "a block whose raw content exceeds 64 KiB"),
 "C12-m1": ("C12", "txn.go Commit: writeLock released right after newCommitTs", "two overlapping commits, one of which rotates the memtable"),
 "C12-m2": ("C12", "db.go rawset: db.mu held across the send to the flusher", "flush queue full while the flusher needs db.mu (ImmutableBuffer+2 rotations within one flush)"),
 "C13-m1": ("C13", "watermark.go process: doneUntil stored after the waiters are released", "a parked waiter reading DoneUntil right after WaitForMark returned nil"),
 "C13-m2": ("C13", "watermark.go process: indices at or below the watermark are not pushed on the heap", "watermark at x, Begin of an index <= x, then Begin+Done of a larger index"),
 "C14-m1": ("C14", "wal/wal.go Read: torn-body check uses the length taken before the prefix was consumed", "last wal record losing only its final 1-8 bytes"),
 "C14-m2": ("C14", "level.go writeTable: os.WriteFile without fsync before the rename", "crash that drops unsynced bytes of a renamed table whose wal is already deleted"),
 "C15-m1": ("C15", "db.go rawset: defer db.mu.Unlock(), send inside the critical section", "queue full while the flusher is mid-flush"),
 "C16-m1": ("C16", "filter.go Contains: Reset moved after the bit test (skipped on the early return)", "a lookup that answers 'absent' followed by a member lookup on the same filter"),
 "C16-m2": ("C16", "filter.go Build: key cut at the first '@'", "a user key containing '@'"),
 "C17-m1": ("C17", "skiplist.go Delete: level shrink tests the predecessor's link instead of the head's", "Set a; Set b; Delete b; Delete a; Set c with a tall tower for a (maxLevel >= 2)"),
 "C17-m2": ("C17", "skiplist.go Set: early return when the value bytes are equal", "re-Set of the same versioned key with the same value and a flipped tombstone flag"),
}
D.update({
 "C01-r2m1": ("C01", "types.IsSameKey: prefix test on the text up to the last '@' of the first key", "a user key that is another user key followed by '@' and more bytes"),
 "C01-r2m2": ("C01", "filter.Contains: Reset after the early return", "a lookup rejected by a table's filter followed by a lookup of a key that table holds"),
 "C02-r2m1": ("C02", "level.go recover: `if` instead of `for` when growing the level list", "reopen of a directory whose first table file is in a level >= 1"),
 "C02-r2m2": ("C02", "db.go rawset: non-blocking send to the flusher (memtable dropped when the queue is full)", "rotation against a full flush queue, later overwrite reaching a table, Close, reopen"),
 "C03-r2m1": ("C03", "level.go maxLevelIdx: idx of the last table", "ten or more tables in a level, restart, further flush"),
 "C03-r2m2": ("C03", "level.go recover: accepts every name parseFileName accepts (also level-idx.db.tmp)", "crash between create and rename of a temporary table"),
 "C04-r2m1": ("C04", "wal.Read: records above 64 KiB are treated as a torn tail", "multi-key transaction with one value near 64 KiB, crash before the flush"),
 "C04-r2m2": ("C04", "db.go Close: flush of the active memtable before the flusher drained (reverts the F14 repair)", "flush queue non-empty at Close, multi-key transaction in the active memtable with an older version of one key queued, crash inside Close"),
 "C05-r2m1": ("C05", "db.go search: immutables walked oldest first", "two queued frozen memtables with versions of one key"),
 "C05-r2m2": ("C05", "txn.go Get: a pending own Delete falls through to the snapshot", "Delete then Get of a key that exists in the snapshot, in one transaction"),
 "C06-r2m1": ("C06", "txn.go Get: fingerprint recorded only for found keys", "create-if-absent by two transactions"),
 "C06-r2m2": ("C06", "oracle.readTs: read-only transactions do not wait for commitMark", "read-only Begin between timestamp allocation and memtable insert of a concurrent commit"),
 "C07-r2m1": ("C07", "oracle.newCommitTs: readMark.Done without setting txn.doneRead (released twice)", "two transactions sharing a read timestamp, overwrite, two further commits, then the sibling commits"),
 "C07-r2m2": ("C07", "txn.go Commit: nothing-to-commit test uses readOnly instead of the empty write set", "update-mode transaction that only reads, concurrent overwrite of a key it read"),
 "C08-r2m1": ("C08", "txn.go modify: discarded check after the fingerprint was recorded in the published set", "refused Set on a committed handle, then commit of a transaction that read that key"),
 "C08-r2m2": ("C08", "db.go: StateClosed stored only on one exit of the flusher loop", "Close with a backlog of queued memtables, then View/Update"),
 "C09-r2m1": ("C09", "level.go compactLN merges with kway.Merge (drops tombstones)", "cascaded compaction from a level >= 1 of a table holding a deletion marker"),
 "C09-r2m2": ("C09", "level.go searchLowerBound: break after a level with a hit", "three L0 tables: front, disjoint older, newer overlapping the front"),
 "C10-r2m1": ("C10", "filter.Contains: Reset after the early return", "rejected lookup then lookup of a stored key on the same table handle"),
 "C10-r2m2": ("C10", "level.go recover: one table.Index value reused for all files", "reopen of a directory with two or more tables"),
 "C11-r2m1": ("C11", "utils.Compress: one package-level s2.Writer reused through Reset", "two goroutines encoding at the same time"),
 "C11-r2m2": ("C11", "utils.LCP: range over runes instead of bytes", "adjacent keys holding the same character once in Latin-1 and once in UTF-8"),
 "C12-r2m1": ("C12", "level.go flushToL0: lm.mu released before the table file is written", "Get with an old snapshot falling through to the sstables while a flush is between publishing the handle and writing the file"),
 "C12-r2m2": ("C12", "db.go search: immutables walked oldest first", "rotation during a flush"),
 "C13-r2m1": ("C13", "watermark.Begin: non-blocking send, a goroutine delivers the mark later when the channel is full", "more than 100 marks in flight"),
 "C13-r2m2": ("C13", "watermark.process: only waiters on popped indices are released", "WaitForMark on an index that is itself never begun"),
 "C14-r2m1": ("C14", "level.go recover: file filter by parseFileName (accepts .db.tmp)", "crash after the temporary table was created and before its rename"),
 "C14-r2m2": ("C14", "memtable.recover: old wals deleted in the loop, replayed entries written in one batch afterwards", "crash, then crash again during recovery"),
 "C15-r2m1": ("C15", "db.go run: closed flag set only when the queue is empty", "Close while memtables are queued"),
 "C15-r2m2": ("C15", "db.go search: recursive db.mu.RLock through a new accessor", "a writer requesting db.mu between the two RLocks of a Get"),
 "C16-r2m1": ("C16", "level.go: lm.mu becomes an RWMutex, lookups take RLock", "two goroutines probing the same table's filter at the same time"),
 "C16-r2m2": ("C16", "level.go recover: filter rebuilt from the non-tombstone entries only", "tombstone in a newer table than the value, restart, read"),
 "C17-r2m1": ("C17", "skiplist.Scan: empty-range fast path compares raw key strings", "bounds on the same user key, or a byte below '@', or versions whose decimal strings sort the other way"),
 "C17-r2m2": ("C17", "skiplist.Get: IsSameKey instead of CompareKeys == 0", "Get of a version that is absent while an older version exists"),
})
STRENGTHENED = {  # seeds that the checks missed when they arrived; what was added
 "C01-m1": "job c01-n3-ops2-k3-l0t2 (L0TargetNum 2, three 2-key transactions); C10 level placement",
 "C01-m2": "gated-replay fallback for sequentially replayed jobs (the engine found it at once, the free-running native replay did not reproduce it)",
 "C02-m1": "job c02-n3-close-with-pending-flushes (stalled flusher)",
 "C03-m2": "recovery phase extended by further commits that drive a compaction under the recovered watermark",
 "C04-m1": "workload W3 (multi-key transaction into a nearly full memtable), job crash-w3-straddle",
 "C04-m2": "assertion C04.acked-atomic and the 2-crash job in the quick tier",
 "C05-m2": "harness VH_CONC4 (Begin during another goroutine's commit)",
 "C06-m2": "job txn-2-nodrain-queue (several unflushed memtables)",
 "C06-m1": "extra third-party commit at a chosen position (job txn-2-extracommit)",
 "C07-m2": "same as C06-m1",
 "C08-m1": "library script 11 (use after a successful commit)",
 "C09-m1": "KLMASK (which entries have 2-byte keys): a 1-byte key followed by its '@'-extension in one table",
 "C09-m2": "job c09-manyfiles-recover (12 tables in L0, recovery, flush, compaction)",
 "C10-m1": "param LEVELS: tables placed at arbitrary levels",
 "C12-m1": "harness VH_CONC3 (two pre-begun blind writers, rotation on every commit)",
 "C13-m1": "waiter reads DoneUntil itself; start handshake; preemption point after close",
 "C13-m2": "oracle corrected: DoneUntil must not ADVANCE while an index at or below it is unfinished",
 "C16-m1": "non-member probes between member probes (job c16-n3-nonmember)",
 "C17-m1": "thorough job with the fixed operation sequence Set Set Delete Delete Set",
}

STRENGTHENED.update({
 "C03-r2m1": "job crash-manyfiles-restart (the change was reported by C02's and C09's many-files jobs from the start)",
 "C04-r2m1": "workload W6 (65535-byte value in a multi-key transaction), job crash-w6-large-value",
 "C04-r2m2": "workload W5 + job crash-w5-close-with-pending-flushes-multikey",
 "C07-r2m1": "two extra commits (job txn-2-rmw-writer-2extracommits)",
 "C07-r2m2": "job txn-2-readonlyrw-vs-writer (script 9 against a writer)",
 "C08-r2m1": "assertion C08.misuse-has-no-effect.commit, job txn-2-rmw-vs-use-after-commit",
 "C08-r2m2": "harness VH_C08_CloseBacklog",
 "C10-r2m1": "harness VH_C16_Recover with the real filter (job c10-recovered-realfilter)",
 "C11-r2m1": "the s2 model got Writer.Reset and treats a writer's state as one race-monitor location; new harness VH_C11_Conc (two goroutines encoding at once, race monitor, schedules with preemption points also at sync.Pool Get/Put); the race is confirmed by go test -race",
 "C11-r2m2": "engine: range over a string now decodes UTF-8 on symbolic bytes (it treated bytes as runes)",
 "C12-r2m1": "old-snapshot reader jobs (reader begun before and reading after the second commit while its flush is under way, preemption bound 2, zone from the second commit)",
 "C13-r2m1": "engine: a select whose chosen case is a send recorded two events, the gated confirmation diverged (the engine had found the counterexample)",
 "C13-r2m2": "native confirmation of a deadlock accepts the harness's own watchdog assertion",
 "C15-r2m1": "job close-with-backlog-dev1",
 "C16-r2m1": "job c16-concurrent-lookups-dev1 (the change was reported by C12's check once VH_CONC5 existed)",
 "C16-r2m2": "harness VH_C16_Recover (filters rebuilt by recover() contain every entry of their table)",
})
MEASURED_MISS = {"C03-r2m1", "C04-r2m1", "C04-r2m2", "C07-r2m1", "C07-r2m2", "C08-r2m1", "C08-r2m2", "C10-r2m1", "C11-r2m1", "C11-r2m2", "C12-r2m1", "C13-r2m1", "C13-r2m2", "C15-r2m1", "C16-r2m1", "C16-r2m2","C01-m2", "C02-m1", "C03-m2", "C04-m1", "C05-m2", "C06-m2", "C09-m1", "C09-m2", "C12-m1", "C13-m1", "C13-m2", "C17-m1"}

def main():
    rep = {}
    path = "/verif/.work/seeds_final.report"
    if os.path.exists(path):
        for blk in open(path).read().split("=== ")[1:]:
            lines = blk.splitlines()
            name = lines[0].split()[0].replace("/", "-")
            tier = re.search(r"\((\w+)\)", lines[0]).group(1)
            res = [l for l in lines if l.startswith("RESULT")]
            chk = [l for l in lines if l.startswith("CHECK")]
            hits = [l.strip() for l in lines if l.startswith("   ")][:4]
            rep.setdefault(name, []).append({"tier": tier, "validation": res[0][7:].strip() if res else "", "check": chk[0][6:].strip() if chk else "", "first_reports": hits})
    for sid, (prop, what, needs) in sorted(D.items()):
        d = f"/verif/seeded/{sid}"
        if not os.path.isdir(d):
            continue
        runs = rep.get(sid, [])
        detected = [r for r in runs if " rc=1 " in " " + r["check"] + " "]
        meta = {
            "id": sid, "property": prop, "change": what, "needs_to_manifest": needs,
            "origin": "independent sub-agent given only the property text and a scratch worktree",
            "confirmed": "tools/validate_seed.sh: patch applies on a scratch worktree of /repo HEAD, builds, existing suite passes with it, demonstration passes without and fails with it",
            "what_was_run": [f"tools/validate_seed.sh seeded/{sid} {prop} {r['tier']}  ->  {r['validation']} ; {r['check']}" for r in runs],
            "detected_by": ({"tier": detected[0]["tier"], "reports": detected[0]["first_reports"]} if detected else None),
            "missed_when_it_arrived": ("measured: the first validation run of the then-current checks did not report it" if sid in MEASURED_MISS else ("predicted from the sub-agent's description; the checks were strengthened before the first validation run" if sid in STRENGTHENED else "no: reported by the checks as they were")),
            "strengthening": STRENGTHENED.get(sid, ""),
        }
        json.dump(meta, open(d + "/meta.json", "w"), indent=1)
    print("meta written for", len([s for s in D if os.path.isdir(f'/verif/seeded/{s}')]))

main()
