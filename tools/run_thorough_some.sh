#!/bin/sh
# run_thorough_some.sh <prop>... : thorough tier of the listed properties, one line each
cd /verif; mkdir -p .work/logs
for p in "$@"; do
  s=$(date +%s)
  VERIF_SEED=${VERIF_SEED:-1} nice -n 10 /verif/bin/vcheck -prop $p -tier thorough > .work/logs/$p-thorough.log 2>&1
  rc=$?; e=$(date +%s)
  echo "$p rc=$rc $((e-s))s $(grep -E '^OK|^VIOLATION|MISMATCH|INFRA|SOLVER' .work/logs/$p-thorough.log | head -2 | tr '\n' ' ' | cut -c1-200)"
done
