#!/bin/sh
# validate_all_seeds.sh [tier] : runs validate_seed.sh for every /verif/seeded/<Cxx-mk>/ and prints a report
TIER=${1:-quick}
for d in ${SEEDS_DIR:-/verif/seeded}/C*-*m*; do
  id=$(basename $d); p=${id%%-*}
  echo "=== $id ($TIER)"
  /verif/tools/validate_seed.sh $d $p $TIER 2>&1 | grep -E "^RESULT|^CHECK|^VIOLATION|^OK|^unconfirmed|MISMATCH|INFRA|^   (assert|panic|race|deadlock)|cannot" | cut -c1-230 | head -12
done
