#!/bin/sh
# validate_all_seeds.sh <seeds dir> <tier> : runs validate_seed.sh for every <seeds>/<Cxx>/<m>/
S=${1:-/verif/.work/seeds}; TIER=${2:-quick}
for d in $S/C*/m*; do
  p=$(basename $(dirname $d)); m=$(basename $d)
  echo "=== $p/$m ($TIER)"
  /verif/tools/validate_seed.sh $d $p $TIER 2>&1 | grep -E "^RESULT|^CHECK|^VIOLATION|^OK|^unconfirmed|MISMATCH|INFRA|^   (assert|panic|race|deadlock)|FAIL|cannot" | cut -c1-230 | head -14
done
