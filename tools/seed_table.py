#!/usr/bin/env python3
"""Prints the markdown table of seeded changes (DESIGN.md appendix A) from /verif/seeded/*/meta.json."""
import json, glob, os
rows = []
for f in sorted(glob.glob("/verif/seeded/*/meta.json")):
    m = json.load(open(f))
    det = m.get("detected_by")
    if det:
        rep = "; ".join(r.strip() for r in det["reports"][:2])
        d = f"{det['tier']}: {rep}"
    else:
        d = "**not detected**"
    miss = m["missed_when_it_arrived"]
    note = ""
    if miss.startswith("measured"):
        note = "missed at first; added: " + m["strengthening"]
    elif miss.startswith("predicted"):
        note = "strengthened before the first run: " + m["strengthening"]
    rows.append(f"| {m['id']} | {m['change']} | {m['needs_to_manifest']} | {d} | {note} |")
print("| seed | change | needs | detected by | note |")
print("|---|---|---|---|---|")
print("\n".join(rows))
