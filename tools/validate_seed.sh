#!/bin/sh
# validate_seed.sh <dir with patch.diff and demo *_test.go> <property id> [tier] [more vcheck args]
# In a scratch worktree of /repo (never /repo itself):
#  1. the patch applies and builds; the existing suite passes with it; the demo fails with it and passes without
#  2. the property's check runs against the patched worktree (VCHECK_REPO) and its verdict is reported
# The worktree and its build output are removed at the end.
set -u
D=$(cd $1 && pwd); P=$2; TIER=${3:-quick}; shift; shift; [ $# -gt 0 ] && shift
GO=/verif/tools/go
WT=/tmp/vseed.$$
git -C /repo worktree add --detach $WT HEAD -q || exit 2
cleanup() { git -C /repo worktree remove --force $WT >/dev/null 2>&1; rm -rf $WT /tmp/vseed.*.$$; }
trap cleanup EXIT
cd $WT
if ! git apply --check $D/patch.diff 2>/dev/null; then echo "RESULT patch-does-not-apply"; exit 0; fi
demo_files=$(ls $D | grep '_test.go$' || true)
place() { for f in $demo_files; do
    pkg=$(grep -m1 '^package ' $D/$f | awk '{print $2}')
    case "$pkg" in
      originium|originium_test) dst=. ;;
      *) base=${pkg%_test}; dst=$(grep -rl --include=*.go "^package $base\$" . | grep -v _test.go | head -1 | xargs dirname) ;;
    esac
    cp $D/$f $dst/ ; echo "$dst" ; done | sort -u; }
unplace() { for p in $1; do for f in $demo_files; do rm -f $p/$f; done; done; }
pkgs=$(place)
clean_rc=0
for p in $pkgs; do timeout 900 $GO test -vet=off -count=1 $p >/tmp/vseed.clean.$$ 2>&1 || clean_rc=1; done
unplace "$pkgs"
git apply $D/patch.diff
if ! $GO build ./... >/tmp/vseed.build.$$ 2>&1; then echo "RESULT does-not-build"; tail -5 /tmp/vseed.build.$$; exit 0; fi
suite_rc=0
timeout 900 $GO test -vet=off -count=1 ./... >/tmp/vseed.suite.$$ 2>&1 || { sleep 1; timeout 900 $GO test -vet=off -count=1 ./... >/tmp/vseed.suite.$$ 2>&1 || suite_rc=1; }
place >/dev/null
mut_rc=0
for p in $pkgs; do timeout 900 $GO test -vet=off -count=1 $p >/tmp/vseed.mut.$$ 2>&1 || mut_rc=1; done
unplace "$pkgs"
echo "RESULT suite_with_patch_rc=$suite_rc demo_clean_rc=$clean_rc demo_patched_rc=$mut_rc   (want 0 0 1)"
[ $suite_rc -ne 0 ] && grep -E "^(--- FAIL|FAIL|panic)" /tmp/vseed.suite.$$ | head -5
[ $clean_rc -ne 0 ] && grep -E "^(--- FAIL|FAIL|panic)" /tmp/vseed.clean.$$ | head -5
# 2. the check against the patched worktree
s=$(date +%s)
VCHECK_REPO=$WT VCHECK_OUT=/tmp/vseed.out.$$ VERIF_SEED=1 timeout 5400 /verif/bin/vcheck -prop $P -tier $TIER "$@" > /tmp/vseed.check.$$ 2>&1
rc=$?
e=$(date +%s)
echo "CHECK property=$P tier=$TIER rc=$rc $((e-s))s"
grep -E "^VIOLATION|^KNOWN|^unconfirmed|MISMATCH|INFRA|^OK|cannot load" /tmp/vseed.check.$$ | cut -c1-220 | head -8
grep -A1 "^VIOLATION" /tmp/vseed.check.$$ | grep -v "^VIOLATION\|^--" | cut -c1-200 | head -5
