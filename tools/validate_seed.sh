#!/bin/sh
# validate_seed.sh <dir with patch.diff and demo files> <property id> [tier]
# 1. fresh scratch worktree: patch applies, builds, existing tests pass, demo fails with / passes without the patch
# 2. apply to /repo, run the property's check, undo
# Output: a short report on stdout.  Scratch worktree is removed.
set -u
D=$1; P=$2; TIER=${3:-quick}
GO=/verif/tools/go
WT=/tmp/vseed.$$
git -C /repo worktree add --detach $WT HEAD -q || exit 2
cleanup() { git -C /repo worktree remove --force $WT >/dev/null 2>&1; rm -rf $WT; }
trap cleanup EXIT
cd $WT
if ! git apply --check $D/patch.diff 2>/dev/null; then echo "RESULT patch-does-not-apply"; exit 0; fi
# demo without the patch
demo_files=$(ls $D | grep '_test.go$' || true)
place() { for f in $demo_files; do
    pkg=$(grep -m1 '^package ' $D/$f | awk '{print $2}')
    case "$pkg" in
      originium|originium_test) dst=. ;;
      *) dst=$(grep -rl --include=*.go "^package $pkg\$" . | grep -v _test.go | head -1 | xargs dirname) ;;
    esac
    cp $D/$f $dst/ ; echo "$dst" ; done | sort -u; }
pkgs=$(place)
echo "demo packages: $pkgs"
clean_rc=0
for p in $pkgs; do timeout 600 $GO test -vet=off -count=1 -run 'Demo|demo|Zz|ZZ' $p >/tmp/vseed.clean.$$ 2>&1 || clean_rc=1; done
git apply $D/patch.diff
$GO build ./... >/tmp/vseed.build.$$ 2>&1 || { echo "RESULT does-not-build"; cat /tmp/vseed.build.$$ | tail -5; exit 0; }
# existing suite with the patch (demo files moved away)
for p in $pkgs; do for f in $demo_files; do rm -f $p/$f; done; done
suite_rc=0
timeout 900 $GO test -vet=off -count=1 ./... >/tmp/vseed.suite.$$ 2>&1 || suite_rc=1
for f in $demo_files; do :; done; place >/dev/null
mut_rc=0
for p in $pkgs; do timeout 600 $GO test -vet=off -count=1 -run 'Demo|demo|Zz|ZZ' $p >/tmp/vseed.mut.$$ 2>&1 || mut_rc=1; done
echo "RESULT suite_with_patch_rc=$suite_rc demo_clean_rc=$clean_rc demo_patched_rc=$mut_rc"
[ $suite_rc -ne 0 ] && tail -15 /tmp/vseed.suite.$$
[ $clean_rc -ne 0 ] && tail -15 /tmp/vseed.clean.$$
[ $mut_rc -eq 0 ] && tail -8 /tmp/vseed.mut.$$
# 2. our check on /repo with the patch applied
cd /verif
git -C /repo apply $D/patch.diff || { echo "cannot apply to /repo"; exit 0; }
s=$(date +%s)
VERIF_SEED=1 timeout 3600 /verif/bin/vcheck -prop $P -tier $TIER > /tmp/vseed.check.$$ 2>&1
rc=$?
e=$(date +%s)
git -C /repo checkout -- .
git -C /repo status --short | grep -v '^??' 
echo "CHECK property=$P tier=$TIER rc=$rc $((e-s))s"
grep -E "^VIOLATION|^KNOWN|^unconfirmed|MISMATCH|INFRA|^OK" /tmp/vseed.check.$$ | head -12
grep -A1 "^VIOLATION" /tmp/vseed.check.$$ | grep -v "^VIOLATION\|^--" | head -6
rm -f /tmp/vseed.*.$$
